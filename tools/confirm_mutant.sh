#!/bin/sh
# usage: tools/confirm_mutant.sh <Cnn> <mK>
# Confirms a seeded change in its scratch worktree /tmp/mut/<Cnn>: the patch applies, the crate builds with and
# without the hooks feature, the existing suite passes with it, the demo FAILS with it and PASSES without it.
id="$1"; m="$2"; w=${MUT_BASE:-/tmp/mut2}/$id; o=$w/OUT/$m
export CARGO_NET_OFFLINE=true CARGO_TARGET_DIR=$w/target
cd "$w" || exit 2
git checkout -q -- . ; git clean -fdq -- src tests
demo=$(python3 -c "import json;print(json.load(open('$o/meta.json'))['demo_path'].split()[0])")
install_demo() {
    for f in "$o"/demo/*; do
        case "$f" in *register.diff) git apply "$f" || echo "register.diff failed";; *.rs) mkdir -p "$(dirname "$w/$demo")"; cp "$f" "$w/$(dirname "$demo")/$(basename "$f")";; esac
    done
}
demo_name=$(basename "$demo" .rs)
run_demo() {
    case "$demo" in
        tests/*) cargo test --offline --test "$demo_name" 2>&1 | grep -E "^test result|error(\[|:)" | head -3;;
        *) cargo test --offline --lib "$demo_name" 2>&1 | grep -E "^test result|error(\[|:)" | head -3;;
    esac
}
echo "--- base: demo must pass"
install_demo; run_demo
git checkout -q -- . ; git clean -fdq -- src tests
echo "--- mutant: build (+feature), suite must pass"
git apply "$o/patch.diff" || { echo "PATCH DOES NOT APPLY"; exit 1; }
cargo build --offline --features verif-hooks 2>&1 | grep -E "^error" | head -3
cargo test --offline 2>&1 | grep -E "^test result" | awk '{p+=$4; f+=$6} END {print "suite: " p " passed " f " failed"}'
echo "--- mutant: demo must fail"
install_demo; run_demo
git checkout -q -- . ; git clean -fdq -- src tests
