#!/bin/sh
# usage: tools/regen_evidence.sh [quick|thorough] [ids...] : re-runs the registered checks on /repo as it is and prints one line each
tier="${1:-quick}"; shift
ids="${*:-C01 C02 C03 C04 C05 C06 C07 C08 C09 C10 C11 C12 C13 C14 C15 C16}"
cd /verif || exit 2
[ -z "$(git -C /repo status --porcelain --untracked-files=no)" ] || { echo "/repo not clean"; exit 2; }
rc_all=0
for c in $ids; do
  s=$(date +%s); ./check $c $tier > /tmp/regen_$c.log 2>&1; rc=$?
  echo "$c exit=$rc $(( $(date +%s)-s ))s known=$(grep -c '^KNOWN-FINDING' /tmp/regen_$c.log) $(grep -E '^(VIOLATION|INCONCLUSIVE)' /tmp/regen_$c.log | head -2 | tr '\n' ' ')"
  [ $rc -eq 0 ] || rc_all=1
done
exit $rc_all
