#!/usr/bin/env python3
"""Regenerates /verif/MANIFEST.json from the table below (kept in one place so that it stays valid)."""
import json, subprocess, os

ROOT = os.path.dirname(os.path.dirname(os.path.abspath(__file__)))

NOTE = ("Trusted: the reference model / codec / journal in /verif/harness (written from the property statements), "
        "the generators' notion of a Raft-legal history, Linux tmpfs + flock semantics, the shadow file system's crash model. "
        "Says nothing about executions that were not produced (other histories, payload sizes, Types instantiations, kernels).")

T = {
 "C01": ("exploration", "Runtime monitor: the real store and an in-memory reference Raft log are driven in lock-step over seeded Raft-legal histories under random chunk configurations; state, full read, random sub-range reads and stat() are compared after every operation. 'Held on the N histories observed' is the right level for a property quantified over histories x configurations whose bugs are off-by-ones at rotation/truncate/purge boundaries.", "reference-model lock-step monitor over generated histories"),
 "C02": ("exploration", "Runtime monitor: same lock-step oracle with clean restarts at random positions and a new random configuration at every open; state, entries and Dump text are compared across each restart and the history continues against the model.", "reference-model monitor across clean restarts, new config per open"),
 "C03": ("fault_enumeration", "Runtime monitor over recorded syscall traces: every prefix of the trace of a scheduled history is turned into process-crash, inside-write and power-loss images; each distinct image is opened by the real recovery code and the recovered (state, entries) must be the reference log after a prefix p with acked <= p <= issued. Enumerates the crash points and the image families of the stated crash model for the executions produced; schedules and histories are sampled. In addition real crashes: child processes running generated histories are killed with SIGKILL at seeded points and the directories they leave are recovered (process-crash half of the model under the real scheduler), and a crash right after a full request queue (1025 flushes) was drained and acknowledged.", "syscall-trace prefixes -> crash images -> real open -> prefix lookup in the reference model"),
 "C04": ("fault_enumeration", "Runtime monitor: offline checker over the trace + shadow file system of scheduled histories with injected fdatasync/write failures (singles, consecutive pairs/triples, short/partial writes): at every Ack(Ok) everything journalled before that flush call must be durable in its file; at-most-once, exactly-once without faults, order. A full-queue scenario (1024 queued flushes + one blocked sender, up to 6 MiB) is checked with the same rules; a failed flush call or a request lost by the worker (worker asleep with requests unprocessed) is a violation.", "shadow-FS durability rule at every Ack event under EIO plans"),
 "C05": ("fault_enumeration", "Same crash-image enumeration as C03: the real open must return Ok on every image (no Err, no panic), the recovered store must take 8 more writes + flush + restart in agreement with the model, and crash images of traced recoveries must open too. One genuine defect (D6) is recorded as a known finding and matched by its exact witness signature. In addition real SIGKILLs of child processes running generated histories and a crash right after a drained full request queue; every workload runs with a logger at Trace level.", "crash images -> real open must succeed + continuation + crash during recovery"),
 "C06": ("exploration", "Runtime monitor: calls the sequential specification rejects are injected into legal histories; a before/after snapshot (state, entries, cache counters, resident set via hook H1, journal end, on-disk size) must be identical, the history continues in lock-step and a final flush+restart must open with the same state. A second Types instantiation with a partially ordered vote, and bursts of limit arguments that the specification refuses.", "snapshot-diff monitor around model-rejected calls + restart"),
 "C07": ("exploration", "Runtime monitor: under tiny cache limits the worker is stepped through its file-system calls by an in-binary gate; at every point where it is parked or idle all live entries are read (range read + snapshot iteration) and compared with the model; reader threads read concurrently with a free-running worker. Thorough adds Miri (UB / data-race detector, 3 histories x 8 scheduler seeds) on a scaled-down concurrent-read workload; Miri being unavailable is recorded and never changes the verdict. Known findings D7a/D7b matched by exact signature. Also held snapshots iterated later and twice, records of 130-600 kB read by up to 8 threads, crash-restarts under tiny caches, the full-queue scenario.", "reads at every worker stall point under tiny caches, 4 concurrent readers; Miri in thorough"),
 "C08": ("fault_enumeration", "Runtime monitor: offline checker at every unlink event of scheduled, purge-heavy, fault-injected histories: oldest first, nothing live inside the deleted chunk, durable remainder below the scheduling flush self-contained (replayed with the reference codec + model); end-state check on the directory. Fault plans include failing unlinks; some histories end with a purge that is never flushed followed by the drop of the store.", "trace rule at every unlink over the shadow FS + end-state check"),
 "C09": ("fault_enumeration", "Runtime monitor: every byte of every complete record of store-made images is replaced (quick 12 values, thorough all 255: exhaustive per image) and every middle chunk removed; the real open must report, never panic, never succeed silently, and a refused open must leave older chunks untouched. Known findings D11a/D11b matched by exact signature. Also images with purged chunk files still present, images with a multi-kilobyte last record, bytes altered underneath an open store, truncation disabled, the offline Dump tool.", "per-byte mutation sweep of store-made images, files-unchanged check"),
 "C10": ("fault_enumeration", "Runtime monitor: every cut position of the newest chunk and zero tails of 16 lengths from every record boundary, with truncation enabled (exact prefix recovered, file cut back, continuation) and disabled (refused, untouched; boundary cuts open). Also zero tails under a second Types instantiation whose vote decoder has its own validity check.", "exhaustive cut / zero-tail sweep per image, both truncate settings"),
 "C11": ("exploration", "Runtime monitor: a byte-exact reference journal (independent codec + rotation rule) is predicted from the accepted records; after every flush+ack+idle the directory is compared byte-for-byte, names/abutment/on_disk_size/Dump are checked, every returned segment is compared with the predicted place of its record; the file-name codec is round-tripped on boundary and random u64.", "byte-exact reference journal vs directory, returned segments, Dump differential"),
 "C12": ("exploration", "Runtime monitor: differential test of the crate's codec against an independent reference codec on generated records and on mutants / arbitrary bytes under catch_unwind (~10^7 decodes); thorough adds Miri runs of the same oracles on a reduced input set (supplementary: the crate has no unsafe code).", "two-codec differential + mutation totality; Miri in thorough"),
 "C13": ("exploration", "Runtime monitor: threads (online owner counter) and child processes (ownership intervals on CLOCK_MONOTONIC merged offline) contend for one directory; at most one owner at any time, refused attempts leave chunk files byte-identical, open succeeds once everybody is gone. Further rounds: owner in another process, path aliases of the directory, owner whose worker has ended on an I/O error, second open after a hand-over, forked child holding inherited descriptors, a writing owner stepped by the gate.", "owner-interval overlap monitor, threads online + processes offline"),
 "C14": ("exploration", "Runtime monitor: the worker is stepped until the last flush's callback fired and is parked in front of its queued unlinks; the store is dropped on a helper thread and reopened at seeded placements relative to the old worker's remaining steps. Trace rule: no directory mutation by the dropped instance's worker after drop returned; reopen shows the acknowledged state; the new instance's purge+flush is acknowledged.", "trace ordering rule (old-worker mutation after DropEnd) + reopen placements"),
 "C15": ("exploration", "Runtime monitor: hook H1 (resident set under the cache lock) vs stat() at every point where the worker is parked or idle; limit clause right after appends; drain clause at the end and after reopen. Also large-chunk rounds (boundary jumping over a whole chunk) and walks in which update_state re-inserts resident ids.", "stat vs resident-set hook at quiescent points"),
 "C16": ("exploration", "Runtime monitor: catch_unwind + panic hook around every public call, in a build with overflow checks and debug assertions, with arguments at the integer limits and around purged/last in reachable states. Also concurrent rounds (readers + drainer), a partially ordered vote type, and walks of 20-60 calls in which update_state is an ordinary step.", "catch_unwind around limit-argument calls, overflow checks on"),
}

def main():
    props = [json.loads(l)["id"] for l in open(os.path.join(ROOT, "properties.jsonl"))]
    hooks = subprocess.run(["git", "-C", "/repo", "log", "--format=%h %s"], capture_output=True, text=True).stdout.splitlines()
    hook_commits = [l.split()[0] for l in hooks if l.split(" ", 1)[1].startswith("verif:")]
    checks = []
    for p in props:
        if p not in T:
            continue
        lvl, text, tech = T[p]
        checks.append({
            "property_id": p,
            "quick_cmd": f"./check {p} quick",
            "thorough_cmd": f"./check {p} thorough",
            "evidence_file": f"/verif/evidence/{p}.json",
            "replay_cmd_template": "harness/target/debug/rlmon replay {path}",
            "engine": "rlmon",
            "level_claimed": {"category": lvl, "text": text, "design_ref": f"DESIGN.md section 3, {p}"},
            "level_note": NOTE,
            "technique": tech,
        })
    m = {
        "version": 1,
        "setup_cmd": "cd /verif/harness && CARGO_NET_OFFLINE=true cargo build --offline",
        "hooks": {
            "guard": "cargo feature verif-hooks (off by default)",
            "enable": "the harness crate /verif/harness depends on raft-log by path /repo with features=[\"verif-hooks\"]; every check command starts with an incremental `cargo build --offline`, so it always recompiles /repo's current working tree",
            "baseline_off_cmd": "cd /repo && cargo test --workspace --no-fail-fast --offline",
            "source_commits": hook_commits,
            "add_only": True,
        },
        "engines": [{"name": "rlmon", "path": "/verif/harness", "serves_properties": [c["property_id"] for c in checks],
                     "kind_free_text": "Rust harness linking the real crate: in-binary libc interposition (event trace, shadow FS, fault injection, thread gate), reference model, reference codec, reference journal, generators, per-property monitors and offline trace checkers; 16 shard processes per check"}],
        "checks": checks,
        "notes": "Exit codes of every check: 0 held on everything observed, 1 VIOLATION (replay file written under /verif/replays), 3 INCONCLUSIVE (harness could not build or observed too little; never counted as held). Genuine defects: see known_findings.json (status fixed = repaired by a 'fix:' commit in /repo; status open = reported as KNOWN-FINDING by exact witness signature).",
        "not_applicable": [{"property_id": p, "reason": "no check committed yet"} for p in props if p not in T],
    }
    json.dump(m, open(os.path.join(ROOT, "MANIFEST.json"), "w"), indent=1)

main()
