#!/usr/bin/env python3
import json, glob, os
rows=[]
plan=json.load(open('/verif/seeded/plan.json'))
for d in sorted(glob.glob('/verif/seeded/C*-*m[0-9]')):
    mp=d+'/meta.json'
    if not os.path.exists(mp): continue
    m=json.load(open(mp))
    det=m.get('detection',{})
    cells=[]
    for c,v in det.items():
        if v['exit']==1:
            cells.append(f"**{c}** ({', '.join(s.split(':',1)[1] for s in v['violation_signatures'][:2])})")
        else:
            cells.append(f"{c}: silent")
    summ=(m.get('summary') or '').replace('|','/').replace('\n',' ')
    if len(summ)>230: summ=summ[:227]+'...'
    note=plan.get(m['id'],{}).get('note') or m.get('note') or ''
    note=note.replace('|','/').replace('\n',' ')
    rows.append(f"| {m['id']} | {summ} | {'; '.join(cells)} | {note} |")
out="| seeded change | what was changed | quick checks at VERIF_SEED=1 | note |\n|---|---|---|---|\n"+"\n".join(rows)+"\n"
open('/verif/seeded/TABLE.md','w').write(out)
print(len(rows),'rows')
