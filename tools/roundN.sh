#!/bin/sh
# usage: tools/roundN.sh <round number> <Cnn> : confirm the changes of one property from /tmp/mut<N>, copy them to seeded/, evaluate them
n="$1"; id="$2"; base=/tmp/mut$n/$id/OUT
ids=""
for m in m1 m2 m3; do
  [ -f $base/$m/patch.diff ] || continue
  echo "===== $id $m (confirm)"
  MUT_BASE=/tmp/mut$n /verif/tools/confirm_mutant.sh $id $m 2>&1 | grep -E "suite:|test result|PATCH|error\[" | head -5
  d=/verif/seeded/${id}-r${n}$m; mkdir -p $d; cp $base/$m/patch.diff $d/; cp -r $base/$m/demo $d/ 2>/dev/null; cp $base/$m/meta.json $d/agent_meta.json
  ids="$ids ${id}-r${n}$m"
done
cd /verif && python3 tools/eval_all.py $ids
