#!/usr/bin/env python3
"""Runs every seeded change under /verif/seeded against its property's quick check (and extra checks given in
seeded/plan.json), restoring /repo after each, and writes seeded/<id>/meta.json."""
import json, os, subprocess, sys, re, glob

# In a `vp run --with-repo` snapshot the script works on the snapshot of /verif it lives in and on the repository
# snapshot ($VP_RUN_REPO): seeded changes are applied there, never to /repo, and ./check is pointed at it.
ROOT = os.path.dirname(os.path.dirname(os.path.abspath(__file__)))
REPO = os.environ.get("VP_RUN_REPO") or "/repo"
if REPO != "/repo":
    os.environ["RLMON_REPO"] = REPO
only = sys.argv[1:]  # optional list of seeded ids
plan = json.load(open(f"{ROOT}/seeded/plan.json")) if os.path.exists(f"{ROOT}/seeded/plan.json") else {}

def sh(cmd, **kw):
    return subprocess.run(cmd, shell=True, capture_output=True, text=True, **kw)

def repo_clean():
    return sh(f"git -C {REPO} status --porcelain --untracked-files=no").stdout.strip() == ""

for d in sorted(glob.glob(f"{ROOT}/seeded/C*-*m[0-9]")):
    sid = os.path.basename(d)
    if only and sid not in only:
        continue
    prop = sid.split("-")[0]
    checks = [prop] + [c for c in plan.get(sid, {}).get("also", []) if c != prop]
    assert repo_clean(), "repository not clean"
    r = sh(f"git -C {REPO} apply {d}/patch.diff")
    if r.returncode != 0:
        print(sid, "PATCH DOES NOT APPLY", r.stderr[:200]); continue
    det = {}
    # evidence written while a seeded change is applied must not replace the evidence of the unchanged tree
    sh(f"rm -rf /tmp/evidence.keep && cp -r {ROOT}/evidence /tmp/evidence.keep")
    try:
        for c in checks:
            out = sh(f"cd {ROOT} && VERIF_SEED=1 ./check {c} quick", timeout=1200)
            sigs = sorted(set(re.findall(r"^  (C\d\d:\S+) ::", out.stdout + out.stderr, re.M)))
            det[c] = {"exit": out.returncode, "violation_signatures": sigs[:8]}
            print(sid, c, "exit", out.returncode, sigs[:3], flush=True)
    finally:
        sh(f"git -C {REPO} checkout -- . && git -C {REPO} clean -fdq -- src tests")
        sh(f"cp /tmp/evidence.keep/*.json {ROOT}/evidence/ && rm -rf /tmp/evidence.keep")
    am = json.load(open(f"{d}/agent_meta.json"))
    meta_path = f"{d}/meta.json"
    meta = json.load(open(meta_path)) if os.path.exists(meta_path) else {}
    meta.update({
        "id": sid,
        "property": prop,
        "summary": am.get("summary"),
        "needs": am.get("needs"),
        "demo_path": am.get("demo_path"),
        "produced_by": meta.get("produced_by") or ("fresh sub-agent given only the property text (later rounds: plus one-line summaries of the earlier changes for that property, to avoid) and a scratch worktree of /repo (HEAD " + ("4196d96" if "-r4" in sid else "3840924") + ")"),
        "confirmed": plan.get(sid, {}).get("confirmed", "tools/confirm_mutant.sh: patch applies; builds with and without --features verif-hooks; existing suite 56 passed 0 failed with the patch; demo passes on the base and fails with the patch"),
        "ran": [f"tools/confirm_mutant.sh {prop} {sid.split('-')[1]}", f"git -C {REPO} apply seeded/{sid}/patch.diff; VERIF_SEED=1 ./check <id> quick for {checks}; git -C {REPO} checkout -- ."],
        "detection": det,
        "detected_by": [c for c, v in det.items() if v["exit"] == 1],
    })
    if "note" in plan.get(sid, {}):
        meta["note"] = plan[sid]["note"]
    json.dump(meta, open(meta_path, "w"), indent=1)
