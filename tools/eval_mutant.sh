#!/bin/sh
# usage: tools/eval_mutant.sh <patch.diff> <tier> <check ids...>
# Applies a seeded change to /repo, runs the given checks, and ALWAYS restores /repo.
patch="$1"; tier="$2"; shift 2
cd /verif || exit 2
if [ -n "$(git -C /repo status --porcelain --untracked-files=no)" ]; then echo "/repo not clean"; exit 2; fi
if ! git -C /repo apply "$patch"; then echo "patch does not apply"; exit 2; fi
for c in "$@"; do
    out=$(VERIF_SEED=${VERIF_SEED:-1} ./check "$c" "$tier" 2>&1)
    rc=$?
    echo "== $c rc=$rc"
    echo "$out" | grep -E "VIOLATION|INCONCLUSIVE|verdict=| :: " | cut -c1-400 | head -8
done
git -C /repo checkout -- . && git -C /repo clean -fdq -- src tests
git -C /repo status --porcelain --untracked-files=no | head -3
