#!/bin/sh
# usage: tools/round2.sh <Cnn> : confirm the round-2 changes of one property, copy them to seeded/, evaluate them
id="$1"; base=/tmp/mut2/$id/OUT
for m in m1 m2 m3; do
  [ -f $base/$m/patch.diff ] || continue
  echo "===== $id $m (confirm)"
  MUT_BASE=/tmp/mut2 /verif/tools/confirm_mutant.sh $id $m 2>&1 | grep -E "suite:|test result|PATCH|error\[" | head -5
  d=/verif/seeded/${id}-r2$m; mkdir -p $d; cp $base/$m/patch.diff $d/; cp -r $base/$m/demo $d/ 2>/dev/null; cp $base/$m/meta.json $d/agent_meta.json
done
cd /verif && python3 tools/eval_all.py ${id}-r2m1 ${id}-r2m2 ${id}-r2m3
