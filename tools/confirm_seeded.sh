#!/bin/sh
# usage: tools/confirm_seeded.sh <seeded id> [patch file]
# Re-confirms a kept seeded change against /repo's current HEAD in a throw-away worktree: the patch applies, the
# crate builds with the hooks feature, the existing suite passes with it, the demo PASSES without it and FAILS with it.
sid="$1"; d=/verif/seeded/$sid; patch="${2:-$d/patch.diff}"
w=/tmp/cs-$sid
git -C /repo worktree remove --force "$w" 2>/dev/null
git -C /repo worktree add -q --detach "$w" HEAD || exit 2
export CARGO_NET_OFFLINE=true CARGO_TARGET_DIR=${CS_TARGET:-/tmp/cs-target}
cd "$w" || exit 2
cp /repo/Cargo.lock . 2>/dev/null
demo=$(python3 -c "import json;print(json.load(open('$d/agent_meta.json'))['demo_path'].split()[0])")
install_demo() {
    for f in "$d"/demo/*; do
        case "$f" in *register.diff) git apply "$f" || echo "register.diff failed";; *.rs) mkdir -p "$(dirname "$w/$demo")"; cp "$f" "$w/$(dirname "$demo")/$(basename "$f")";; esac
    done
}
demo_name=$(basename "$demo" .rs)
run_demo() {
    case "$demo" in
        tests/*) cargo test --offline --test "$demo_name" 2>&1 | grep -E "^test result|error(\[|:)" | head -3;;
        *) cargo test --offline --lib "$demo_name" 2>&1 | grep -E "^test result|error(\[|:)" | head -3;;
    esac
}
echo "--- $sid base: demo must pass"
install_demo; run_demo
git checkout -q -- . ; git clean -fdq -- src tests
echo "--- $sid changed: build (+feature), suite must pass"
git apply "$patch" || { echo "PATCH DOES NOT APPLY"; cd /; git -C /repo worktree remove --force "$w"; exit 1; }
cargo build --offline --features verif-hooks 2>&1 | grep -E "^error" | head -3
cargo test --offline 2>&1 | grep -E "^test result" | awk '{p+=$4; f+=$6} END {print "suite: " p " passed " f " failed"}'
echo "--- $sid changed: demo must fail"
install_demo; run_demo
cd /; git -C /repo worktree remove --force "$w"
