#!/bin/sh
# usage: tools/seed_sweep.sh <first seed> <last seed> [tier] [ids...]
# Silence sweep on the unchanged tree: every check at every seed; prints one line per non-zero exit and a summary.
# Under `vp run --with-repo` the harness is pointed at the repository snapshot ($VP_RUN_REPO) so that seeded changes
# applied to /repo meanwhile do not disturb the sweep.
a="$1"; b="$2"; tier="${3:-quick}"; shift 3 2>/dev/null
ids="${*:-C01 C02 C03 C04 C05 C06 C07 C08 C09 C10 C11 C12 C13 C14 C15 C16}"
here="$(cd "$(dirname "$0")/.." && pwd)"
cd "$here" || exit 2
[ -n "$VP_RUN_REPO" ] && export RLMON_REPO="$VP_RUN_REPO"
bad=0; n=0
s=$a
while [ "$s" -le "$b" ]; do
  for c in $ids; do
    VERIF_SEED=$s ./check $c $tier > sweep_$c.log 2>&1; rc=$?
    n=$((n+1))
    if [ $rc -ne 0 ]; then
      bad=$((bad+1))
      echo "SWEEP-ALARM seed=$s check=$c exit=$rc"
      grep -E " :: |^VIOLATION|^INCONCLUSIVE" sweep_$c.log | cut -c1-700 | head -6
      mkdir -p sweep_replays; cp replays/$c-$s-*.json sweep_replays/ 2>/dev/null
    fi
  done
  echo "sweep: seed $s done ($n runs, $bad alarms)"
  s=$((s+1))
done
echo "SWEEP-SUMMARY runs=$n alarms=$bad"
