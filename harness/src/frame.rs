//! Check framework: shards, result merging, evidence files, known findings, replay files.

use std::collections::{BTreeMap, BTreeSet, HashSet};

use serde_json::{Value, json};

use crate::util;

#[derive(Clone, Copy, Debug, PartialEq, Eq)]
pub enum Tier {
    Quick,
    Thorough,
}

impl Tier {
    pub fn name(&self) -> &'static str {
        match self {
            Tier::Quick => "quick",
            Tier::Thorough => "thorough",
        }
    }
}

#[derive(Clone, Debug)]
pub struct Viol {
    /// property the failed oracle belongs to
    pub prop: String,
    /// canonical signature of the witness (what fails, where) — key for de-duplication
    /// and for matching known findings
    pub sig: String,
    /// human-readable one-liner
    pub text: String,
    /// everything needed to re-run the case
    pub replay: Value,
}

/// Path of the shard's result file (set by `rlmon shard`).
pub static PARTIAL_OUT: std::sync::OnceLock<String> = std::sync::OnceLock::new();

#[derive(Default)]
pub struct ShardOut {
    pub evaluations: u64,
    pub distinct: HashSet<u64>,
    pub counters: BTreeMap<String, u64>,
    pub sets: BTreeMap<String, BTreeSet<String>>,
    pub samples: Vec<Value>,
    pub viols: Vec<Viol>,
    pub inconclusive: Vec<String>,
}

impl ShardOut {
    pub fn count(&mut self, k: &str, n: u64) {
        *self.counters.entry(k.to_string()).or_insert(0) += n;
    }
    pub fn tag(&mut self, set: &str, v: &str) {
        self.sets.entry(set.to_string()).or_default().insert(v.to_string());
    }
    pub fn sample(&mut self, v: Value) {
        if self.samples.len() < 3 {
            self.samples.push(v);
        }
    }
    pub fn viol(&mut self, v: Viol) {
        let is_new = v.prop != "HARNESS" && !self.viols.iter().any(|x| x.sig == v.sig);
        self.viol_inner(v);
        // A shard that finds a violation may afterwards run into the parent's wall-clock watchdog (e.g. every later
        // wait on a worker that has died runs to its limit). What it found must not be lost with it: the result file
        // is rewritten whenever a new signature appears.
        if is_new {
            if let Some(p) = PARTIAL_OUT.get() {
                let _ = std::fs::write(format!("{}.partial", p), serde_json::to_string(&self.to_json()).unwrap_or_default());
            }
        }
    }
    fn viol_inner(&mut self, v: Viol) {
        // a problem of the harness itself (a wait that ran out of time, a generator mistake) is a case not judged
        if v.prop == "HARNESS" {
            self.inconclusive.push(format!("{}: {}", v.sig, v.text));
            return;
        }
        // keep the first witness per signature, count the rest
        self.count(&format!("viol:{}", v.sig), 1);
        if !self.viols.iter().any(|x| x.sig == v.sig) && self.viols.len() < 50 {
            self.viols.push(v);
        }
    }
    pub fn to_json(&self) -> Value {
        json!({
            "evaluations": self.evaluations,
            "distinct": self.distinct.iter().map(|h| h.to_string()).collect::<Vec<_>>(),
            "counters": self.counters,
            "sets": self.sets,
            "samples": self.samples,
            "viols": self.viols.iter().map(|v| json!({"prop": v.prop, "sig": v.sig, "text": v.text, "replay": v.replay})).collect::<Vec<_>>(),
            "inconclusive": self.inconclusive,
        })
    }
    pub fn merge_json(&mut self, v: &Value) {
        self.evaluations += v["evaluations"].as_u64().unwrap_or(0);
        if let Some(a) = v["distinct"].as_array() {
            for h in a {
                if let Some(x) = h.as_str().and_then(|s| s.parse::<u64>().ok()) {
                    self.distinct.insert(x);
                }
            }
        }
        if let Some(o) = v["counters"].as_object() {
            for (k, n) in o {
                self.count(k, n.as_u64().unwrap_or(0));
            }
        }
        if let Some(o) = v["sets"].as_object() {
            for (k, a) in o {
                for x in a.as_array().into_iter().flatten() {
                    if let Some(s) = x.as_str() {
                        self.tag(k, s);
                    }
                }
            }
        }
        if let Some(a) = v["samples"].as_array() {
            for s in a {
                if self.samples.len() < 6 {
                    self.samples.push(s.clone());
                }
            }
        }
        if let Some(a) = v["viols"].as_array() {
            for x in a {
                let vi = Viol {
                    prop: x["prop"].as_str().unwrap_or("").to_string(),
                    sig: x["sig"].as_str().unwrap_or("").to_string(),
                    text: x["text"].as_str().unwrap_or("").to_string(),
                    replay: x["replay"].clone(),
                };
                if !self.viols.iter().any(|y| y.sig == vi.sig) {
                    self.viols.push(vi);
                }
            }
        }
        if let Some(a) = v["inconclusive"].as_array() {
            for s in a {
                if let Some(s) = s.as_str() {
                    self.inconclusive.push(s.to_string());
                }
            }
        }
    }
}

pub struct Ctx {
    pub prop: String,
    pub tier: Tier,
    pub seed: u64,
    pub shard: u32,
    pub nshards: u32,
    pub out: ShardOut,
    pub t0: f64,
    /// wall-clock budget of this shard in seconds (a cap, never a verdict input)
    pub budget_s: f64,
    /// end of the current phase (a preliminary workload gets a share of what is left, so that it cannot use up the
    /// budget of the workloads after it); f64::MAX outside phases
    pub phase_deadline: f64,
}

impl Ctx {
    pub fn time_left(&self) -> bool {
        let now = util::now_s();
        now - self.t0 < self.budget_s && now < self.phase_deadline
    }
    /// The workload that follows may use at most `share` of the time that is left.
    pub fn begin_phase(&mut self, share: f64) -> f64 {
        let now = util::now_s();
        let end = self.t0 + self.budget_s;
        self.phase_deadline = now + (end - now).max(0.0) * share;
        self.phase_deadline
    }
    pub fn end_phase(&mut self) {
        self.phase_deadline = f64::MAX;
    }
    pub fn shard_seed(&self) -> u64 {
        util::fnv_mix(util::fnv_mix(self.seed, 0x5151 + self.shard as u64), util::hash_str(&self.prop))
    }
}

#[derive(Clone, Debug)]
pub struct Known {
    pub property: String,
    pub id: String,
    pub status: String,
    pub signature: String,
    pub text: String,
}

pub fn verif_root() -> String {
    std::env::var("VERIF_ROOT").unwrap_or_else(|_| "/verif".to_string())
}

pub fn load_known() -> Vec<Known> {
    let p = format!("{}/known_findings.json", verif_root());
    let Ok(s) = std::fs::read_to_string(&p) else { return vec![] };
    let Ok(v) = serde_json::from_str::<Value>(&s) else { return vec![] };
    let mut out = vec![];
    for e in v["findings"].as_array().into_iter().flatten() {
        out.push(Known {
            property: e["property"].as_str().unwrap_or("").to_string(),
            id: e["id"].as_str().unwrap_or("").to_string(),
            status: e["status"].as_str().unwrap_or("").to_string(),
            signature: e["signature"].as_str().unwrap_or("").to_string(),
            text: e["text"].as_str().unwrap_or("").to_string(),
        });
    }
    out
}

/// Counters that must be non-zero in every run of a check (quick and thorough).
pub fn required_counters(id: &str) -> &'static [&'static str] {
    match id {
        "C01" => &["rotations", "reads_checked", "returned_segments_checked", "files_compared_bytewise", "walk:appended_entries_read_back"],
        "C02" => &["restarts", "restarts_at_the_end_of_the_history", "rejected_calls", "writes_that_hit_an_injected_chunk_creation_failure", "full_queue_rounds", "walk:restarts_compared"],
        "C03" | "C05" => &[
            "distinct_images_opened_by_real_recovery",
            "crash_after:worker:sync",
            "crash_after:worker:unlink",
            "crash_after:worker:write",
            "crash_after:caller:create",
            "family:process_crash",
            "family:inside_write",
            "family:power_loss_zero_fill",
            "family:power_loss_cut_interior",
            "faults_injected",
            "second_level_images",
            "continuations_run(8_writes+flush+restart)",
            "real_sigkill_rounds",
            "real_sigkill_recoveries_matching_a_prefix",
            "full_queue_rounds",
        ],
        "C04" => &["acks_ok_checked_against_shadow_fs", "acks_ok_spanning_several_chunk_files", "acks_err", "faults_injected", "full_queue_rounds", "shutdown_cases(flush_with_callback_then_drop)", "flushes_of_several_MiB_checked", "callbacks_received_over_a_shared_bounded_channel"],
        "C06" => &["rejected_calls", "restarts_at_the_end_of_the_history", "partial_order_vote:incomparable_votes_tried", "walk:refused_calls_compared"],
        "C07" => &["cache_misses_served_from_disk", "concurrent_reader_results_checked", "eviction_boundary_checks_after_sync", "held_snapshots_iterated_later", "reads_after_crash_restart", "full_queue_rounds", "large_record_rounds"],
        "C08" => &["unlinks_checked", "end_state_checks", "faults_injected", "unlinks_in_histories_with_an_earlier_failed_sync", "deleted_chunks_that_contained_a_purge_record"],
        "C09" => &["opens_of_mutated_images", "middle_chunks_removed", "bytes_altered_underneath_an_open_store_then_read", "images_with_purged_chunk_files_still_present", "mutations_also_opened_with_truncation_disabled", "mutations_also_listed_with_the_Dump_tool", "images_with_a_multi_kilobyte_last_record"],
        "C10" => &["cut_positions", "zero_tail_images", "cases_with_truncation_disabled", "continuations(5_writes+flush+restart)", "cuts_also_recovered_under_much_smaller_chunk_limits", "zero_tail_images_under_a_vote_type_with_its_own_validity_check"],
        "C11" => &["files_compared_bytewise", "returned_segments_checked", "file_names_round_tripped", "rotations", "full_queue_rounds", "writes_that_hit_an_injected_chunk_creation_failure"],
        "C12" => &["decodes", "roundtrip:append", "roundtrip:state", "roundtrip:vote", "roundtrip:commit", "roundtrip:purge", "roundtrip:truncate", "mutation:truncate", "mutation:subst:len_prefix", "encodes_after_a_failed_encode", "records_with_a_forged_checksum_value(0,1,0xFFFFFFFF,..)"],
        "C13" => &["refusals(contention_observed)", "acquisitions_as_dump", "process_rounds", "attempts_against_a_parked_writing_owner", "chunk_file_comparisons_after_refusals", "fork_rounds(owner_dropped_while_a_forked_child_holds_its_descriptors)", "attempts_whose_flock_call_failed_with_another_errno", "other_process_rounds(refused_here_then_owner_process_exits)", "attempts_through_another_path_spelling(symlink,dot,double_slash)", "attempts_against_an_owner_whose_worker_had_ended", "reopens_while_a_snapshot_of_the_dropped_owner_was_alive", "empty_directory_races"],
        "C14" => &["new_instance_purge_flush_acked", "placement:0", "placement:1", "placement:2", "placement:3", "placement:4", "opener_parked_inside_open", "unflushed_writes_after_the_last_ack", "old_instance_snapshots_dropped_under_a_new_instance"],
        "C15" => &["cache_observations", "observations_over_limit_after_append", "pinned_entries_seen_over_limit", "drain_checks", "walk:accounting_observations", "walk:appends_of_an_id_appended_before", "stat_snapshots_checked_for_internal_consistency", "accounting_observations_under_a_capacity_based_payload_size", "large_chunk_rounds"],
        "C16" => &["adversarial_calls", "concurrent_rounds(4_readers+drainer)", "walk:update_state_calls", "walk:appends_of_an_id_appended_before", "partial_order_vote:incomparable_votes_tried"],
        _ => &[],
    }
}

pub struct PropMeta {
    pub id: &'static str,
    pub level: &'static str,
    pub rule: &'static str,
    pub assumptions: &'static [&'static str],
    /// minimum number of non-trivial distinct cases below which the run is inconclusive
    pub min_distinct: u64,
}

/// Merge shard outputs, write the evidence file and replay files, print verdict lines.
/// Returns the process exit code.
pub fn finish(meta: &PropMeta, tier: Tier, seed: u64, merged: &mut ShardOut, wall_s: f64, shard_failures: Vec<String>) -> i32 {
    let root = verif_root();
    let known = load_known();
    let mut new_viols: Vec<&Viol> = vec![];
    let mut known_hits: BTreeMap<String, (u64, String)> = BTreeMap::new();
    let mut other_prop = 0u64;
    for v in &merged.viols {
        if v.prop != meta.id {
            other_prop += 1;
            continue;
        }
        if let Some(k) = known.iter().find(|k| k.property == v.prop && k.status == "open" && k.signature == v.sig) {
            let n = merged.counters.get(&format!("viol:{}", v.sig)).copied().unwrap_or(1);
            known_hits.insert(k.id.clone(), (n, v.text.clone()));
        } else {
            new_viols.push(v);
        }
    }
    let _ = std::fs::create_dir_all(format!("{}/replays", root));
    let mut lines = vec![];
    for (i, v) in new_viols.iter().enumerate() {
        let path = format!("{}/replays/{}-{}-{}.json", root, meta.id, seed, i);
        let body = json!({"property": v.prop, "signature": v.sig, "text": v.text, "tier": tier.name(), "seed": seed, "replay": v.replay});
        let _ = std::fs::write(&path, serde_json::to_string_pretty(&body).unwrap_or_default());
        lines.push(format!("VIOLATION property={} replay={}", meta.id, path));
        eprintln!("  {} :: {}", v.sig, v.text);
    }
    for k in known.iter().filter(|k| k.property == meta.id && k.status == "open") {
        let (n, _) = known_hits.get(&k.id).cloned().unwrap_or((0, String::new()));
        println!("KNOWN-FINDING: property={} {} [{}; reproduced {} time(s) in this run]", meta.id, k.text, k.id, n);
    }

    let distinct = merged.distinct.len() as u64;
    let mut inconclusive: Vec<String> = shard_failures;
    if merged.evaluations == 0 || distinct < meta.min_distinct.max(2) {
        inconclusive.push(format!("observed too little: evaluations={} distinct_nontrivial={} (need >= {})", merged.evaluations, distinct, meta.min_distinct.max(2)));
    }
    let n_inc_cases = merged.inconclusive.len();
    // every sub-oracle of the check must have observed something: a counter that stays at zero means that part of
    // the rule was never evaluated (the run is then not "held", whatever the other parts saw)
    for k in required_counters(meta.id) {
        if merged.counters.get(*k).copied().unwrap_or(0) == 0 {
            inconclusive.push(format!("sub-oracle observed nothing: counter '{}' is 0", k));
        }
    }
    // cases that could not be judged are tolerated one by one (a watchdog, a shard under load), not in bulk: many
    // unjudgeable cases of one kind mean that this scenario no longer runs to its oracle
    {
        let mut by_kind: BTreeMap<String, u64> = BTreeMap::new();
        for i in &merged.inconclusive {
            let kind: String = i.split(|c: char| c.is_ascii_digit()).next().unwrap_or("").chars().take(60).collect();
            *by_kind.entry(kind).or_insert(0) += 1;
        }
        for (k, n) in by_kind {
            if n >= 12 {
                inconclusive.push(format!("{} cases could not be judged: '{}...'", n, k.trim()));
            }
        }
    }

    let mut coverage = serde_json::Map::new();
    coverage.insert("evaluations".into(), json!(merged.evaluations));
    coverage.insert("distinct_nontrivial".into(), json!(distinct));
    coverage.insert("rule".into(), json!(meta.rule));
    coverage.insert("samples".into(), json!(merged.samples));
    coverage.insert("exhaustive".into(), json!(false));
    let mut counters = serde_json::Map::new();
    for (k, n) in &merged.counters {
        if !k.starts_with("viol:") {
            counters.insert(k.clone(), json!(n));
        }
    }
    coverage.insert("observed".into(), Value::Object(counters));
    let mut sets = serde_json::Map::new();
    for (k, s) in &merged.sets {
        sets.insert(k.clone(), json!({"count": s.len(), "values": s.iter().take(40).collect::<Vec<_>>()}));
    }
    coverage.insert("observed_sets".into(), Value::Object(sets));
    coverage.insert("inconclusive_cases".into(), json!(n_inc_cases));
    coverage.insert("inconclusive_samples".into(), json!(merged.inconclusive.iter().take(5).collect::<Vec<_>>()));
    coverage.insert("failures_of_other_properties_seen".into(), json!(other_prop));
    coverage.insert(
        "known_findings_reproduced".into(),
        json!(known_hits.iter().map(|(k, (n, t))| json!({"id": k, "count": n, "witness": t})).collect::<Vec<_>>()),
    );
    coverage.insert("violation_signatures".into(), json!(new_viols.iter().map(|v| json!({"sig": v.sig, "text": v.text})).collect::<Vec<_>>()));
    let verdict = if !new_viols.is_empty() {
        "violated"
    } else if !inconclusive.is_empty() {
        "inconclusive"
    } else {
        "held_on_observed"
    };
    coverage.insert("verdict".into(), json!(verdict));
    coverage.insert("run_problems".into(), json!(inconclusive));
    coverage.insert("counters_required_to_be_nonzero".into(), json!(required_counters(meta.id)));

    let ev = json!({
        "property_id": meta.id,
        "tier": tier.name(),
        "seed": seed,
        "level": meta.level,
        "coverage": Value::Object(coverage),
        "assumptions": meta.assumptions,
        "wall_s": (wall_s * 100.0).round() / 100.0,
        "violations": new_viols.len(),
    });
    let _ = std::fs::create_dir_all(format!("{}/evidence", root));
    let evp = format!("{}/evidence/{}.json", root, meta.id);
    if let Err(e) = std::fs::write(&evp, serde_json::to_string_pretty(&ev).unwrap_or_default()) {
        eprintln!("cannot write evidence {}: {}", evp, e);
    }

    for l in &lines {
        println!("{}", l);
    }
    println!(
        "{} {} seed={} evaluations={} distinct_nontrivial={} inconclusive_cases={} wall={:.1}s verdict={}",
        meta.id,
        tier.name(),
        seed,
        merged.evaluations,
        distinct,
        n_inc_cases,
        wall_s,
        verdict
    );
    if !new_viols.is_empty() {
        1
    } else if !inconclusive.is_empty() {
        for i in &inconclusive {
            println!("INCONCLUSIVE property={} {}", meta.id, i);
        }
        3
    } else {
        0
    }
}
