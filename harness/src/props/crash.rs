//! C03 / C05: crash-image enumeration from recorded traces.
//!
//! A scheduled history is run once under the shim; every prefix of its trace is a
//! state the disk really was in. For every crash point the synthesiser builds
//! process-crash and power-loss images, opens each with the real `RaftLog::open`
//! and checks: (C03) the recovered state is the model after some prefix p of the
//! accepted writes with acked <= p <= issued; (C05) open succeeds, the recovered
//! store continues to work, and a crash during the recovery itself is survivable too.

use std::collections::{BTreeMap, HashMap};

use serde_json::{Value, json};

use crate::frame::{Ctx, Tier, Viol};
use crate::genr::{Gen, GenParams};
use crate::model::{self, Model};
use crate::props::sched::{self, FaultSpec, NoObserver, RunErr, RunRec, SchedCase};
use crate::props::seq;
use crate::refcodec;
use crate::shadow::{Shadow, image_hash};
use crate::store::{self, CfgSpec, Outcome, Outcome2, Store};
use crate::trace::{self, Ek, Role, Sk};
use crate::util::{self, Rng};

pub type Image = Vec<(u64, Vec<u8>)>;

#[derive(Clone, Debug)]
pub enum Recovered {
    Ok { digest: u64, repaired: bool },
    Err(String),
    Panic(String),
}

#[derive(Default)]
pub struct CrashStats {
    pub crash_points: u64,
    pub images: u64,
    pub distinct_images: u64,
    pub opens: u64,
    pub by_family: BTreeMap<String, u64>,
    pub by_event: BTreeMap<String, u64>,
    pub p_minus_a: BTreeMap<String, u64>,
    pub acked_at_stake: u64,
    pub continuations: u64,
    pub recovery_traces: u64,
    pub second_level_images: u64,
    pub repaired_images: u64,
    pub open_failures: u64,
}

pub struct ImageDir {
    pub dir: String,
}

impl ImageDir {
    pub fn new(tag: &str) -> Self {
        ImageDir { dir: util::fresh_dir(tag) }
    }
    pub fn install(&self, img: &Image) {
        if let Ok(rd) = std::fs::read_dir(&self.dir) {
            for e in rd.flatten() {
                let _ = std::fs::remove_file(e.path());
            }
        }
        store::write_image(&self.dir, img);
    }
}

impl Drop for ImageDir {
    fn drop(&mut self) {
        util::remove_dir(&self.dir);
    }
}

pub fn recovery_cfg(c: &CfgSpec) -> CfgSpec {
    let mut c = c.clone();
    if c.read_buf.is_none() {
        c.read_buf = Some(4096);
    }
    c.truncate = None;
    c
}

/// Open an image with the real store; return what it recovered.
pub fn open_image(idir: &ImageDir, img: &Image, cfg: &CfgSpec) -> (Recovered, Option<(model::MState, Vec<(model::LogId, String)>)>) {
    idir.install(img);
    match Store::open(&idir.dir, cfg, 50) {
        Ok(mut st) => {
            let state = st.state();
            let entries = match st.read_all() {
                Outcome2::Ok(v) => v,
                Outcome2::Err(e) => {
                    st.close();
                    return (Recovered::Err(format!("read after recovery: {}", e)), None);
                }
                Outcome2::Panic(p) => {
                    st.close();
                    return (Recovered::Panic(format!("read after recovery: {}", p)), None);
                }
            };
            let _ = st.wait_idle(5_000);
            st.close();
            let digest = model::digest_of(&state, entries.iter().map(|(id, p)| (*id, p.as_str())));
            let after = store::read_image(&idir.dir);
            let repaired = &after != img;
            (Recovered::Ok { digest, repaired }, Some((state, entries)))
        }
        Err(Outcome::Err(e)) => (Recovered::Err(e), None),
        Err(Outcome::Panic(p)) => (Recovered::Panic(p), None),
        Err(Outcome::Ok(_)) => unreachable!(),
    }
}

/// Candidate contents of one file after power loss.
fn power_loss_candidates(durable: &[u8], written: &[u8], r: &mut Rng) -> Vec<(String, Vec<u8>)> {
    let mut out: Vec<(String, Vec<u8>)> = vec![];
    if durable == written {
        return vec![("same".into(), written.to_vec())];
    }
    if !written.starts_with(durable) {
        // the file was cut back (recovery): either version
        return vec![("durable".into(), durable.to_vec()), ("written".into(), written.to_vec())];
    }
    let d = durable.len();
    let w = written.len();
    out.push(("min".into(), durable.to_vec()));
    let bounds = refcodec::boundaries(written);
    for b in &bounds {
        if *b > d && *b < w {
            out.push(("cut_boundary".into(), written[..*b].to_vec()));
        }
    }
    for _ in 0..2 {
        if w - d > 1 {
            let c = d + 1 + r.below((w - d - 1) as u64) as usize;
            out.push(("cut_interior".into(), written[..c].to_vec()));
        }
    }
    // zero-filled from a record boundary >= durable length
    for b in &bounds {
        if *b >= d && *b < w {
            let mut z = written[..*b].to_vec();
            z.resize(w, 0);
            out.push(("zero_fill".into(), z));
        }
    }
    out.push(("max".into(), written.to_vec()));
    out
}

/// All images for the disk state `sh` (after some event), optionally with the next write partly applied.
pub fn images_at(sh: &Shadow, next_write: Option<(u64, u64, &[u8])>, r: &mut Rng, thorough: bool) -> Vec<(String, Image)> {
    let mut out: Vec<(String, Image)> = vec![];
    let ids: Vec<u64> = sh.files.keys().copied().collect();
    let written: Image = sh.written_image();
    out.push(("process_crash".into(), written.clone()));
    // inside the next write
    if let Some((cid, off, data)) = next_write {
        if let Some(pos) = ids.iter().position(|c| *c == cid) {
            let base = &written[pos].1;
            let mut full = base.clone();
            let off = off as usize;
            if full.len() < off + data.len() {
                full.resize(off + data.len(), 0);
            }
            full[off..off + data.len()].copy_from_slice(data);
            let mut cuts: Vec<usize> = refcodec::boundaries(&full).into_iter().filter(|b| *b > off && *b < off + data.len()).collect();
            for _ in 0..3 {
                if data.len() > 1 {
                    cuts.push(off + 1 + r.below((data.len() - 1) as u64) as usize);
                }
            }
            cuts.sort();
            cuts.dedup();
            for c in cuts {
                let mut img = written.clone();
                img[pos].1 = full[..c].to_vec();
                out.push(("inside_write".into(), img));
            }
        }
    }
    // power loss
    let cands: Vec<Vec<(String, Vec<u8>)>> = ids.iter().map(|c| power_loss_candidates(&sh.files[c].durable, &sh.files[c].written, r)).collect();
    let varying: Vec<usize> = (0..ids.len()).filter(|i| cands[*i].len() > 1).collect();
    if !varying.is_empty() {
        let pick = |sel: &dyn Fn(usize) -> usize| -> Image { ids.iter().enumerate().map(|(i, c)| (*c, cands[i][sel(i)].1.clone())).collect() };
        out.push(("power_loss_all_min".into(), pick(&|_| 0)));
        for &i in &varying {
            for k in 1..cands[i].len() {
                let fam = format!("power_loss_{}", cands[i][k].0);
                // this file varied, the others at their minimum / maximum
                out.push((fam.clone(), pick(&|j| if j == i { k } else { 0 })));
                if varying.len() > 1 {
                    out.push((fam, pick(&|j| if j == i { k } else { cands[j].len() - 1 })));
                }
            }
        }
        if varying.len() > 1 {
            let n = if thorough { 8 } else { 3 };
            for _ in 0..n {
                let sel: Vec<usize> = (0..ids.len()).map(|i| r.below(cands[i].len() as u64) as usize).collect();
                out.push(("power_loss_random_combo".into(), pick(&|j| sel[j])));
            }
        }
    }
    out
}

/// D6 predicate on a witness: chunk `pid` of the image, which is followed by chunk `y`, lacks
/// bytes below `y` only because they had not been written / made durable yet when the crash
/// happened (its complete-record prefix is a prefix of what the full trace later wrote there).
/// set while an enumeration runs over a trace in which a worker write failed (the worker stops at a write error,
/// so a chunk tail handed to it may never be written at all; the hole that leaves is the same known finding)
static WRITE_FAULT_IN_TRACE: std::sync::atomic::AtomicBool = std::sync::atomic::AtomicBool::new(false);

fn hole_is_unwritten_tail(img: &Image, pid: u64, y: u64, final_written: &BTreeMap<u64, Vec<u8>>, acked_gend: u64) -> bool {
    let Some((_, pbytes)) = img.iter().find(|(c, _)| *c == pid) else { return false };
    let p = refcodec::parse_file(pbytes);
    if matches!(p.tail, refcodec::Tail::Damaged(_)) {
        return false;
    }
    // bytes that an acknowledged flush covered can never be legitimately missing
    if pid + (p.good_len as u64) < acked_gend {
        return false;
    }
    let complete_len = (y - pid) as usize;
    let Some(fin) = final_written.get(&pid) else { return false };
    let never_completed_because_worker_stopped = WRITE_FAULT_IN_TRACE.load(std::sync::atomic::Ordering::Relaxed);
    p.good_len < complete_len && (fin.len() >= complete_len || never_completed_because_worker_stopped) && fin.starts_with(&pbytes[..p.good_len])
}

fn parse_padded(s: &str) -> Option<u64> {
    s.trim().replace('_', "").parse::<u64>().ok()
}

fn classify_open_failure(rec: &Recovered, img: &Image, final_written: &BTreeMap<u64, Vec<u8>>, acked_gend: u64) -> String {
    match rec {
        Recovered::Panic(p) => format!("open_panic:{}", p.rsplit(" @ ").next().unwrap_or("?")),
        Recovered::Err(e) => {
            if let Some(rest) = e.strip_prefix("Gap between chunks: ") {
                // Gap between chunks: X -> Y
                let nums: Vec<u64> = rest.split(';').next().unwrap_or("").split("->").filter_map(parse_padded).collect();
                if nums.len() == 2 {
                    let y = nums[1];
                    // The known finding covers only a hole before a chunk that holds at least its complete
                    // head record: a newest chunk without a complete record is discarded by recovery, so a
                    // gap reported in front of such a chunk is a different failure.
                    let y_has_head = img.iter().find(|(c, _)| *c == y).map(|(_, b)| !refcodec::parse_file(b).recs.is_empty()).unwrap_or(false);
                    if let Some((pid, _)) = img.iter().filter(|(c, _)| *c < y).last() {
                        if y_has_head && hole_is_unwritten_tail(img, *pid, y, final_written, acked_gend) {
                            return "open_err:hole_left_by_unwritten_chunk_tail".into();
                        }
                        let good = refcodec::parse_file(&img.iter().find(|(c, _)| c == pid).unwrap().1).good_len as u64;
                        if pid + good < acked_gend {
                            return "open_err:hole_where_acknowledged_bytes_were".into();
                        }
                    }
                    if !y_has_head {
                        return "open_err:gap_in_front_of_chunk_without_complete_record".into();
                    }
                }
                return "open_err:gap".into();
            }
            if e.contains("contains no complete record but is not the last chunk") {
                // ChunkId(00_000_..._000) contains no complete record ...
                let id = e.split("ChunkId(").nth(1).and_then(|r| r.split(')').next()).and_then(parse_padded);
                if let Some(pid) = id {
                    if let Some((y, _)) = img.iter().find(|(c, _)| *c > pid) {
                        if hole_is_unwritten_tail(img, pid, *y, final_written, acked_gend) {
                            return "open_err:hole_left_by_unwritten_chunk_tail".into();
                        }
                        if pid < acked_gend {
                            return "open_err:hole_where_acknowledged_bytes_were".into();
                        }
                    }
                }
                return "open_err:empty_chunk_in_the_middle".into();
            }
            let e1 = e.split(':').next().unwrap_or("");
            let mut s: String = e1.chars().filter(|c| c.is_ascii_alphabetic() || *c == ' ').collect();
            s.truncate(40);
            format!("open_err:{}", s.trim().replace(' ', "_"))
        }
        _ => "?".into(),
    }
}

fn img_brief(img: &Image) -> Value {
    json!(img.iter().map(|(c, b)| json!({"chunk": c, "len": b.len(), "records": refcodec::parse_file(b).recs.len(), "tail": format!("{:?}", refcodec::parse_file(b).tail)})).collect::<Vec<_>>())
}

fn img_json(img: &Image) -> Value {
    json!(img.iter().map(|(c, b)| json!([c, util::hex(b)])).collect::<Vec<_>>())
}

pub struct Enumerator<'a> {
    pub case: &'a SchedCase,
    pub rr: &'a RunRec,
    pub idir: ImageDir,
    pub cfg: CfgSpec,
    pub cache: HashMap<u64, Recovered>,
    pub by_digest: HashMap<u64, Vec<usize>>,
    pub stats: CrashStats,
    pub viols: Vec<Viol>,
    pub thorough: bool,
    pub r: Rng,
    pub final_written: BTreeMap<u64, Vec<u8>>,
    pub deadline: f64,
    pub sample: Option<Value>,
    /// journal end covered by the flushes acknowledged Ok before the current crash point
    pub acked_gend: u64,
}

impl<'a> Enumerator<'a> {
    pub fn new(case: &'a SchedCase, rr: &'a RunRec, thorough: bool, seed: u64, deadline: f64) -> Self {
        let mut by_digest: HashMap<u64, Vec<usize>> = HashMap::new();
        for (p, m) in rr.models.iter().enumerate() {
            by_digest.entry(m.digest()).or_default().push(p);
        }
        // the longest content every chunk file ever had in the full trace
        let mut sh = Shadow::new();
        let mut final_written: BTreeMap<u64, Vec<u8>> = BTreeMap::new();
        for e in &rr.trace.evs {
            sh.apply(&rr.trace, &e.k);
            if let Some(p) = e.k.path() {
                if let Some(c) = sh.cid(&rr.trace, p) {
                    if let Some(f) = sh.files.get(&c) {
                        let cur = final_written.entry(c).or_default();
                        if f.written.len() >= cur.len() {
                            *cur = f.written.clone();
                        }
                    }
                }
            }
        }
        Enumerator { case, rr, idir: ImageDir::new("img"), cfg: recovery_cfg(&rr.final_cfg), cache: HashMap::new(), by_digest, stats: CrashStats::default(), viols: vec![], thorough, r: Rng::new(seed), final_written, deadline, sample: None, acked_gend: 0 }
    }

    fn push_viol(&mut self, prop: &str, sig: String, text: String, k: usize, fam: &str, img: &Image) {
        if self.viols.iter().any(|v| v.sig == format!("{}:{}", prop, sig)) {
            return;
        }
        self.viols.push(Viol {
            prop: prop.into(),
            sig: format!("{}:{}", prop, sig),
            text: format!("crash after event {} ({}), image family {}: {} | image {}", k, self.rr.trace.evs.get(k).map(|e| format!("{} {}", e.role.name(), e.k.short())).unwrap_or_default(), fam, text, img_brief(img)),
            replay: json!({"kind": "crash", "case": self.case.to_json(), "crash_after_event": k, "family": fam, "image": img_json(img)}),
        });
    }

    /// Check one image at crash point k with acked prefix `a` and issued prefix `hi`.
    fn check_image(&mut self, k: usize, fam: &str, img: &Image, a: usize, hi: usize) {
        self.stats.images += 1;
        *self.stats.by_family.entry(fam.to_string()).or_insert(0) += 1;
        let h = image_hash(img);
        let mut fresh = false;
        if !self.cache.contains_key(&h) {
            fresh = true;
            self.stats.distinct_images += 1;
            self.stats.opens += 1;
            let (rec, _) = open_image(&self.idir, img, &self.cfg);
            if let Recovered::Ok { repaired: true, .. } = rec {
                self.stats.repaired_images += 1;
            }
            self.cache.insert(h, rec);
        }
        let rec = self.cache.get(&h).cloned().unwrap();
        match &rec {
            Recovered::Ok { digest, repaired } => {
                let ps = self.by_digest.get(digest).cloned().unwrap_or_default();
                let ok = ps.iter().any(|p| *p >= a && *p <= hi);
                if !ok {
                    let (sig, text) = if ps.is_empty() {
                        ("not_a_prefix".to_string(), format!("recovered state is not the result of ANY prefix of the {} accepted writes (acked {}, issued {})", self.rr.recs.len(), a, hi))
                    } else if ps.iter().all(|p| *p < a) {
                        ("acked_write_lost".to_string(), format!("recovered the state after {:?} writes, but {} writes were issued before a flush that had been acknowledged Ok: the acknowledged record #{} ({}) is forgotten", ps, a, a, self.rr.recs.get(a - 1).map(|r| r.to_json().to_string()).unwrap_or_default()))
                    } else {
                        ("from_the_future".to_string(), format!("recovered the state after {:?} writes but only {} had been issued at the crash", ps, hi))
                    };
                    let kind = if fam.starts_with("power_loss") { "power_loss" } else { fam };
                    self.push_viol("C03", format!("{}:{}", sig, kind), text, k, fam, img);
                } else {
                    let p = ps.iter().filter(|p| **p >= a && **p <= hi).max().copied().unwrap();
                    *self.stats.p_minus_a.entry(format!("{}", (p - a).min(9))).or_insert(0) += 1;
                    // C05: the recovered store keeps working (once per distinct image)
                    if fresh && (self.thorough || *repaired || self.r.chance(1, 4)) {
                        self.continuation(k, fam, img, p);
                    }
                    if fresh && *repaired && (self.thorough && self.r.chance(1, 5) || self.r.chance(1, 20)) {
                        self.crash_during_recovery(k, fam, img, a, hi);
                    }
                }
            }
            other => {
                self.stats.open_failures += 1;
                let sig = classify_open_failure(other, img, &self.final_written, self.acked_gend);
                let text = match other {
                    Recovered::Err(e) => format!("open refused: {}", e),
                    Recovered::Panic(p) => format!("open panicked: {}", p),
                    _ => String::new(),
                };
                self.push_viol("C05", sig, text, k, fam, img);
            }
        }
    }

    /// C05: after recovery, 8 more legal ops + flush + ack + idle + drop + open behave like the model.
    fn continuation(&mut self, k: usize, fam: &str, img: &Image, p: usize) {
        self.stats.continuations += 1;
        self.idir.install(img);
        let mut m: Model = self.rr.models[p].clone();
        let mut st = match Store::open(&self.idir.dir, &self.cfg, 60) {
            Ok(s) => s,
            Err(o) => {
                self.push_viol("C05", "second_open_failed".into(), format!("image opened once, second open: {}", o.brief()), k, fam, img);
                return;
            }
        };
        let mut gp = GenParams::default();
        gp.big_payloads = false;
        gp.lower_term = false;
        let mut g = Gen::new(self.r.next(), 900_000 + k as u64, gp);
        g.m = m.clone();
        g.term_hint = m.st.last.map(|l| l.0).unwrap_or(1).max(m.st.vote.map(|v| v.0).unwrap_or(1));
        let mut fail: Option<(String, String)> = None;
        for _ in 0..8 {
            let op = g.gen_write();
            let mut m2 = g.m.clone();
            let (_, res) = Gen::apply_to_model(&mut m2, &op);
            if res.is_err() {
                continue;
            }
            g.m = m2;
            match st.write(&op) {
                Outcome::Ok(_) => {}
                o => {
                    fail = Some(("continuation_write".into(), format!("after recovery, legal {} -> {}", op.brief(), o.brief())));
                    break;
                }
            }
        }
        m = g.m.clone();
        // a second crash right here - recovered, a few writes issued, nothing flushed yet (whatever the worker was
        // handed by rotations has been written): that directory must open as well
        let mut second_image: Option<Image> = None;
        if fail.is_none() && st.wait_idle(5_000) {
            second_image = Some(store::read_image(&self.idir.dir));
        }
        if fail.is_none() {
            if let Err(e) = st.sync() {
                if e.starts_with("TIMEOUT") {
                    // not judged
                    st.close();
                    return;
                }
                fail = Some(("continuation_flush".into(), format!("after recovery, flush+ack+idle: {}", e)));
            }
        }
        if fail.is_none() {
            let got = (st.state(), st.read_all());
            if got.0 != m.st || got.1 != Outcome2::Ok(m.entries()) {
                fail = Some(("continuation_state".into(), format!("after recovery and 8 more writes the store shows {:?}, model {:?}", got.0, m.st)));
            }
        }
        st.close();
        if fail.is_none() {
            match Store::open(&self.idir.dir, &self.cfg, 61) {
                Ok(mut s2) => {
                    let got = (s2.state(), s2.read_all());
                    if got.0 != m.st || got.1 != Outcome2::Ok(m.entries()) {
                        fail = Some(("continuation_restart_state".into(), format!("after recovery, 8 writes, flush and restart the store shows {:?}, model {:?}", got.0, m.st)));
                    }
                    s2.close();
                }
                Err(o) => fail = Some(("continuation_restart".into(), format!("after recovery, 8 writes and flush, restart: {}", o.brief()))),
            }
        }
        if fail.is_none() {
            if let Some(img2) = second_image {
                if self.r.chance(1, 2) {
                    let (rec2, _) = open_image(&self.idir, &img2, &self.cfg);
                    self.stats.opens += 1;
                    match rec2 {
                        Recovered::Ok { .. } => {}
                        other => {
                            let sig = format!("crash_after_recovery_and_unflushed_writes:{}", classify_open_failure(&other, &img2, &BTreeMap::new(), 0));
                            let text = match &other {
                                Recovered::Err(e) => format!("the store recovered, took a few writes (not flushed) and crashed again; the second recovery is refused: {}", e),
                                Recovered::Panic(p) => format!("second recovery panicked: {}", p),
                                _ => String::new(),
                            };
                            // a hole left by D6 can also appear here: the known-finding predicate needs the full trace of
                            // the continuation, which is not recorded, so gaps in front of a chunk WITH a head are skipped
                            if !sig.ends_with("open_err:gap") {
                                fail = Some((sig, text));
                            }
                        }
                    }
                }
            }
        }
        if let Some((sig, text)) = fail {
            self.push_viol("C05", sig, text, k, fam, img);
        }
    }

    /// C05: crash during recovery itself (one level deep).
    fn crash_during_recovery(&mut self, k: usize, fam: &str, img: &Image, a: usize, hi: usize) {
        self.stats.recovery_traces += 1;
        self.idir.install(img);
        trace::begin(&self.idir.dir);
        let opened = Store::open(&self.idir.dir, &self.cfg, 70);
        if let Ok(mut s) = opened {
            let _ = s.wait_idle(5_000);
            s.close();
        }
        let tr = trace::end();
        let mut sh = Shadow::from_image(img);
        let n = tr.evs.len();
        for i in 0..n {
            sh.apply(&tr, &tr.evs[i].k);
            if !tr.evs[i].k.is_fs() {
                continue;
            }
            let next_write = match tr.evs.get(i + 1).map(|e| &e.k) {
                Some(Ek::Write { path, off, data, res }) if *res > 0 => sh.cid(&tr, *path).map(|c| (c, *off, &data[..*res as usize])),
                _ => None,
            };
            let imgs = images_at(&sh, next_write, &mut self.r, false);
            for (f2, im2) in imgs {
                self.stats.second_level_images += 1;
                let h = image_hash(&im2);
                if !self.cache.contains_key(&h) {
                    self.stats.opens += 1;
                    let (rec, _) = open_image(&self.idir, &im2, &self.cfg);
                    self.cache.insert(h, rec);
                }
                let rec = self.cache.get(&h).cloned().unwrap();
                let fam2 = format!("{}>recovery_ev{}>{}", fam, i, f2);
                match &rec {
                    Recovered::Ok { digest, .. } => {
                        let ps = self.by_digest.get(digest).cloned().unwrap_or_default();
                        if !ps.iter().any(|p| *p >= a && *p <= hi) {
                            self.push_viol("C03", "after_crash_during_recovery".into(), format!("state recovered after a crash during recovery matches prefixes {:?}, allowed [{},{}]", ps, a, hi), k, &fam2, &im2);
                        }
                    }
                    other => {
                        let sig = format!("crash_during_recovery:{}", classify_open_failure(other, &im2, &self.final_written, self.acked_gend));
                        let text = match other {
                            Recovered::Err(e) => format!("open refused: {}", e),
                            Recovered::Panic(p) => format!("open panicked: {}", p),
                            _ => String::new(),
                        };
                        self.push_viol("C05", sig, text, k, &fam2, &im2);
                    }
                }
            }
        }
    }

    pub fn run(&mut self) {
        let rr = self.rr;
        let t = &rr.trace;
        let wf = t.evs.iter().any(|e| matches!(&e.k, Ek::Write { data, res, .. } if e.role == Role::Worker && (*res < 0 || (*res as usize) < data.len())));
        WRITE_FAULT_IN_TRACE.store(wf || rr.worker_dead, std::sync::atomic::Ordering::Relaxed);
        let mut sh = Shadow::new();
        let mut a = 0usize;
        let mut hi = 0usize;
        let flush_by_id: HashMap<u64, usize> = rr.flushes.iter().map(|f| (f.id, f.writes_before)).collect();
        let gend_by_id: HashMap<u64, u64> = rr.flushes.iter().map(|f| (f.id, f.gend)).collect();
        let mut shadow_version = 0u64;
        let mut last_imgs: Option<(u64, Vec<(String, Image)>)> = None;
        for k in 0..t.evs.len() {
            if util::now_s() > self.deadline {
                break;
            }
            let e = &t.evs[k];
            sh.apply(t, &e.k);
            match &e.k {
                Ek::Ack { flush, ok: true } => {
                    if let Some(w) = flush_by_id.get(flush) {
                        a = a.max(*w);
                    }
                    if let Some(g) = gend_by_id.get(flush) {
                        self.acked_gend = self.acked_gend.max(*g);
                    }
                }
                Ek::OpBegin { op } => {
                    let i = *op as usize;
                    hi = hi.max(rr.steps.get(i).map(|s| s.writes_after).unwrap_or(rr.recs.len()));
                }
                _ => {}
            }
            if e.k.is_fs() {
                shadow_version += 1;
            }
            // crash points: after every fs event and after every ack (the acked prefix grew)
            let is_point = e.k.is_fs() || matches!(e.k, Ek::Ack { ok: true, .. });
            if !is_point || sh.files.is_empty() {
                continue;
            }
            self.stats.crash_points += 1;
            *self.stats.by_event.entry(format!("{}:{}", e.role.name(), match &e.k {
                Ek::Create { .. } => "create",
                Ek::Write { .. } => "write",
                Ek::Sync { .. } => "sync",
                Ek::Trunc { .. } => "truncate",
                Ek::Unlink { .. } => "unlink",
                _ => "ack",
            })).or_insert(0) += 1;
            if sh.files.values().any(|f| f.durable.len() < f.written.len()) && a > 0 {
                self.stats.acked_at_stake += 1;
            }
            let next_write = match t.evs.get(k + 1).map(|e| &e.k) {
                Some(Ek::Write { path, off, data, res }) if *res > 0 => sh.cid(t, *path).map(|c| (c, *off, data[..*res as usize].to_vec())),
                _ => None,
            };
            let regenerate = match &last_imgs {
                Some((v, _)) => *v != shadow_version,
                None => true,
            };
            if regenerate {
                let nw = next_write.as_ref().map(|(c, o, d)| (*c, *o, d.as_slice()));
                let imgs = images_at(&sh, nw, &mut self.r, self.thorough);
                last_imgs = Some((shadow_version, imgs));
            }
            let imgs = last_imgs.as_ref().unwrap().1.clone();
            // the write in flight belongs to an op that has begun: hi already covers it
            for (fam, img) in &imgs {
                self.check_image(k, fam, img, a, hi);
            }
            if self.sample.is_none() && imgs.len() > 3 {
                self.sample = Some(json!({"crash_after_event": k, "event": e.k.short(), "acked_prefix": a, "issued_prefix": hi, "images": imgs.iter().take(6).map(|(f, i)| json!({"family": f, "files": img_brief(i)})).collect::<Vec<_>>()}));
            }
        }
    }
}

pub fn gen_case(seed: u64, hist: u64) -> SchedCase {
    let mut r = Rng::new(seed);
    let mut p = GenParams::default();
    // half of the histories rotate constantly (many files with unsynced heads and tails),
    // the other half keep most records in one or two files (power loss mostly tears the tail)
    let class = r.below(3);
    p.tiny_chunks = class == 0;
    p.roomy_chunks = class != 0;
    p.big_payloads = false;
    p.flush_pm = 220;
    p.sync_pm = 40;
    p.min_ops = 12;
    p.max_ops = 32;
    p.purge_heavy = r.chance(1, 2);
    p.reopen_pm = if r.chance(1, 5) { 30 } else { 0 };
    let mut h = seq::gen_case(r.next(), hist, &p, "C03");
    if class == 2 {
        // no rotation at all: every record lives in one file, power loss can only tear its tail
        h.cfg.max_records = None;
        h.cfg.max_size = None;
        // one entry of 70 kB in a third of these: an unsynced write longer than 64 KiB (long zero-filled tails)
        if r.chance(1, 3) {
            for st in h.steps.iter_mut() {
                if let crate::store::Op::Append(es) = &mut st.op {
                    if let Some(e) = es.first_mut() {
                        while e.1.len() < 70_000 {
                            e.1.push('B');
                        }
                        break;
                    }
                }
            }
        }
    }
    let sched = sched::gen_sched(&mut r, h.steps.len());
    // fault + crash: one failing fdatasync, two consecutive ones, or a short write, in 2 of 5 histories
    let w = r.below(100);
    let faults = if w < 60 {
        vec![]
    } else if w < 74 {
        vec![FaultSpec { role: Role::Worker, kind: Sk::Sync, nth: r.below(24) as u32, action: "eio".into() }]
    } else if w < 85 {
        let n = r.below(20) as u32;
        vec![FaultSpec { role: Role::Worker, kind: Sk::Sync, nth: n, action: "eio".into() }, FaultSpec { role: Role::Worker, kind: Sk::Sync, nth: n + 1, action: "eio".into() }]
    } else if w < 96 {
        // a write of the worker fails outright, is cut short, or fails after a part was written
        let action = match r.below(3) {
            0 => "eio".to_string(),
            1 => format!("short:{}", r.range(1, 25)),
            _ => format!("partial:{}", r.range(1, 25)),
        };
        vec![FaultSpec { role: Role::Worker, kind: Sk::Write, nth: r.below(12) as u32, action }]
    } else {
        vec![FaultSpec { role: Role::Caller, kind: Sk::Create, nth: r.range(1, 6) as u32, action: "eio".into() }]
    };
    SchedCase { hist: h, sched, faults, reader_steps: vec![], gate_acks: r.chance(1, 2) }
}

pub fn run_shard(ctx: &mut Ctx) {
    let mut r = Rng::new(ctx.shard_seed());
    let quick_n = 6u64;
    let mut h = 0u64;
    let me = ctx.prop.clone();
    {
        // a crash right after a full request queue was drained and acknowledged
        let n = if ctx.tier == Tier::Quick { 1 } else { 20 };
        let dl = ctx.begin_phase(0.1);
        crate::props::maxbatch::run(&mut ctx.out, n, &mut r, &|| util::now_s() < dl);
        // real crashes: a child process running a history is killed with SIGKILL and its directory recovered
        let n = if ctx.tier == Tier::Quick { 12 } else { 2000 };
        let dl = ctx.begin_phase(0.3);
        crate::props::kill9::run(&mut ctx.out, n, &mut r, &|| util::now_s() < dl);
        ctx.end_phase();
    }
    loop {
        if ctx.tier == Tier::Quick && h >= quick_n {
            break;
        }
        if !ctx.time_left() {
            break;
        }
        let case = gen_case(r.next(), h + ctx.shard as u64 * 1_000_000);
        h += 1;
        let dir = util::fresh_dir("crash");
        let res = sched::run(&case, &mut NoObserver, &dir);
        util::remove_dir(&dir);
        match res {
            Ok(rr) => {
                let deadline = ctx.t0 + ctx.budget_s;
                let mut en = Enumerator::new(&case, &rr, ctx.tier == Tier::Thorough, r.next(), deadline);
                en.run();
                if std::env::var("RLMON_DEBUG").is_ok() {
                    eprintln!("history cfg={:?} events={} points={} images={} distinct={} open_failed={} sigs={:?}", case.hist.cfg, rr.trace.evs.len(), en.stats.crash_points, en.stats.images, en.stats.distinct_images, en.stats.open_failures, en.viols.iter().map(|v| v.sig.clone()).collect::<Vec<_>>());
                }
                ctx.out.evaluations += en.stats.images;
                ctx.out.count("histories", 1);
                ctx.out.count("trace_events", rr.trace.evs.len() as u64);
                ctx.out.count("crash_points", en.stats.crash_points);
                ctx.out.count("images_checked", en.stats.images);
                ctx.out.count("distinct_images_opened_by_real_recovery", en.stats.distinct_images);
                ctx.out.count("real_opens", en.stats.opens);
                ctx.out.count("crash_points_with_acked_data_and_unsynced_bytes", en.stats.acked_at_stake);
                ctx.out.count("images_that_needed_repair", en.stats.repaired_images);
                ctx.out.count("continuations_run(8_writes+flush+restart)", en.stats.continuations);
                ctx.out.count("recoveries_traced_for_crash_during_recovery", en.stats.recovery_traces);
                ctx.out.count("second_level_images", en.stats.second_level_images);
                ctx.out.count("images_on_which_open_failed", en.stats.open_failures);
                ctx.out.count("faults_injected", rr.faults_fired as u64);
                for (k, n) in &en.stats.by_family {
                    ctx.out.count(&format!("family:{}", k), *n);
                }
                for (k, n) in &en.stats.by_event {
                    ctx.out.count(&format!("crash_after:{}", k), *n);
                }
                for (k, n) in &en.stats.p_minus_a {
                    ctx.out.count(&format!("recovered_prefix_minus_acked:{}", k), *n);
                }
                for (hsh, rec) in &en.cache {
                    if matches!(rec, Recovered::Ok { .. }) || me == "C05" {
                        ctx.out.distinct.insert(*hsh);
                    }
                }
                if let Some(s) = en.sample.take() {
                    ctx.out.sample(json!({"config": case.hist.cfg.to_json(), "ops": crate::genr::steps_brief(&case.hist.steps), "schedule": case.sched, "example_crash_point": s}));
                }
                for v in en.viols.drain(..) {
                    ctx.out.viol(v);
                }
            }
            Err(RunErr::Viol(v)) => ctx.out.viol(v),
            Err(RunErr::Inconclusive(s)) => ctx.out.inconclusive.push(s),
        }
    }
}

pub fn replay(vj: &Value) -> Option<Viol> {
    // show what the real store does with the recorded image, then re-run the whole case for the verdict
    let case = SchedCase::from_json(&vj["case"])?;
    let img: Image = vj["image"].as_array()?.iter().filter_map(|e| Some((e.get(0)?.as_u64()?, util::unhex(e.get(1)?.as_str()?)))).collect();
    let idir = ImageDir::new("replay");
    let cfg = recovery_cfg(&case.hist.cfg);
    let (rec, got) = open_image(&idir, &img, &cfg);
    println!("image: {}", img_brief(&img));
    match &rec {
        Recovered::Ok { .. } => println!("open Ok: state {:?}, {} entries", got.as_ref().map(|g| g.0.clone()), got.as_ref().map(|g| g.1.len()).unwrap_or(0)),
        Recovered::Err(e) => println!("open refused: {}", e),
        Recovered::Panic(p) => println!("open panicked: {}", p),
    }
    let dir = util::fresh_dir("crash");
    let res = sched::run(&case, &mut NoObserver, &dir);
    util::remove_dir(&dir);
    let rr = res.ok()?;
    let known = crate::frame::load_known();
    for seed in 1..4 {
        let mut en = Enumerator::new(&case, &rr, true, seed, util::now_s() + 120.0);
        en.run();
        for v in en.viols {
            if known.iter().any(|k| k.status == "open" && k.signature == v.sig) {
                println!("KNOWN-FINDING reproduced: {}", v.sig);
                continue;
            }
            return Some(v);
        }
    }
    None
}
