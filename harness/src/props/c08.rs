//! C08: chunk files are deleted only when obsolete and durably purged, oldest first.
//! Offline checker over the trace + shadow FS of scheduled (and fault-injected) histories,
//! plus an end-state check on the real directory.

use std::collections::BTreeMap;

use serde_json::json;

use crate::frame::{Ctx, Tier, Viol};
use crate::genr::GenParams;
use crate::model::{LogId, MState, Rec};
use crate::props::sched::{self, FaultSpec, NoObserver, RunErr, RunRec, SchedCase};
use crate::props::seq;
use crate::refcodec::{self, Tail};
use crate::shadow::Shadow;
use crate::trace::{Ek, Role, Sk};
use crate::util::{self, Rng};

fn v(case: &SchedCase, sig: &str, text: String) -> Viol {
    Viol { prop: "C08".into(), sig: format!("C08:{}", sig), text, replay: json!({"kind": "c08", "case": case.to_json()}) }
}

#[derive(Default)]
pub struct C08Stats {
    pub unlinks: u64,
    pub unlinks_after_failed_sync_in_history: u64,
    pub unlinks_with_purge_record_inside_deleted_chunk: u64,
    pub unlinks_batched: u64,
    pub remainder_replays: u64,
    pub end_state_checks: u64,
    pub end_state_closed_chunks_examined: u64,
    pub purges: u64,
}

/// Replay a sequence of (chunk id, bytes) as the store's recovery would: state from the
/// head snapshots and records, index -> (log id, payload) from the Append records.
pub fn replay_files(files: &[(u64, &[u8])]) -> Result<(MState, BTreeMap<u64, (LogId, String)>), String> {
    let mut st = MState::default();
    let mut log: BTreeMap<u64, (LogId, String)> = BTreeMap::new();
    for (k, (id, bytes)) in files.iter().enumerate() {
        let p = refcodec::parse_file(bytes);
        if p.tail != Tail::Clean {
            return Err(format!("chunk {} does not parse cleanly ({:?} after {} bytes)", id, p.tail, p.good_len));
        }
        match p.recs.first() {
            Some((_, _, Rec::State(_))) => {}
            _ => return Err(format!("chunk {} does not start with a complete state snapshot", id)),
        }
        if k + 1 < files.len() && id + bytes.len() as u64 != files[k + 1].0 {
            return Err(format!("chunk {} ends at {} but the next chunk is {}", id, id + bytes.len() as u64, files[k + 1].0));
        }
        let mut m = crate::model::Model { st: st.clone(), log: std::mem::take(&mut log) };
        for (_, _, r) in &p.recs {
            m.apply(r);
        }
        st = m.st;
        log = m.log;
    }
    Ok((st, log))
}

pub fn check(case: &SchedCase, rr: &RunRec, stats: &mut C08Stats) -> Vec<Viol> {
    let mut out = vec![];
    let t = &rr.trace;
    let mut sh = Shadow::new();
    let mut max_gend_so_far = 0u64;
    let mut sync_failed_before = false;
    let mut prev_unlink = false;
    for (i, e) in t.evs.iter().enumerate() {
        if let Ek::FlushCall { gend, .. } = &e.k {
            max_gend_so_far = max_gend_so_far.max(*gend);
        }
        if let Ek::Sync { res, .. } = &e.k {
            if *res != 0 {
                sync_failed_before = true;
            }
        }
        let is_unlink = matches!(&e.k, Ek::Unlink { res: 0, .. });
        if let Ek::Unlink { path, res: 0 } = &e.k {
            let Some(pid) = sh.cid(t, *path) else { continue };
            stats.unlinks += 1;
            if sync_failed_before {
                stats.unlinks_after_failed_sync_in_history += 1;
            }
            if prev_unlink {
                stats.unlinks_batched += 1;
            }
            // (a) oldest first
            if let Some(min) = sh.files.keys().next() {
                if *min != pid {
                    out.push(v(case, "not_oldest_first", format!("event {}: chunk {} deleted while the older chunk {} still exists", i, pid, min)));
                }
            }
            // the flush call that scheduled this deletion
            let fr = rr.flushes.iter().find(|f| f.removed.contains(&pid));
            let g = fr.map(|f| f.gend).unwrap_or(max_gend_so_far);
            let deleted_bytes = sh.files.get(&pid).map(|f| f.written.clone()).unwrap_or_default();
            // (d) nothing stored in the deleted chunk is still live
            let live_model = fr.map(|f| &rr.models[f.writes_before]).unwrap_or_else(|| rr.models.last().unwrap());
            let parsed = refcodec::parse_file(&deleted_bytes);
            for (_, _, r) in &parsed.recs {
                if let Rec::Append(id, p) = r {
                    // (generated payloads are unique except the empty one: an entry with an empty payload that was
                    // truncated away and later appended again with the same id cannot be told from its live namesake)
                    if p.is_empty() {
                        continue;
                    }
                    if let Some((mid, mp)) = live_model.log.get(&id.1) {
                        if mid == id && mp == p {
                            out.push(v(case, "live_entry_deleted", format!("event {}: chunk {} deleted although it stores entry {:?}, which is neither purged nor truncated (purged={:?})", i, pid, id, live_model.st.purged)));
                            break;
                        }
                    }
                }
                if let Rec::Purge(_) = r {
                    stats.unlinks_with_purge_record_inside_deleted_chunk += 1;
                }
            }
            // (b) the durable remainder below the scheduling flush point is self-contained
            let remaining: Vec<u64> = sh.files.keys().copied().filter(|c| *c != pid).collect();
            let mut parts: Vec<(u64, Vec<u8>)> = vec![];
            let mut complete = true;
            for (k, id) in remaining.iter().enumerate() {
                if *id >= g {
                    break;
                }
                let next = remaining.get(k + 1).copied().unwrap_or(u64::MAX);
                let need = (g.min(next) - id) as usize;
                let f = &sh.files[id];
                if f.durable.len() < need {
                    complete = false;
                    out.push(v(
                        case,
                        "deleted_before_remainder_durable",
                        format!(
                            "event {}: chunk {} deleted while chunk {} holds only {} durable bytes of the {} journalled before the flush (journal end {}) that scheduled the deletion{}",
                            i,
                            pid,
                            id,
                            f.durable.len(),
                            need,
                            g,
                            if sync_failed_before { " [a sync had failed]" } else { "" }
                        ),
                    ));
                    break;
                }
                parts.push((*id, f.durable[..need].to_vec()));
            }
            if complete {
                if parts.is_empty() {
                    out.push(v(case, "nothing_remains", format!("event {}: chunk {} deleted and no chunk below the flush point {} remains", i, pid, g)));
                } else {
                    stats.remainder_replays += 1;
                    let refs: Vec<(u64, &[u8])> = parts.iter().map(|(a, b)| (*a, b.as_slice())).collect();
                    match replay_files(&refs) {
                        Err(e) => out.push(v(case, "remainder_not_gap_free", format!("event {}: after deleting chunk {} the durable remainder is not a gap-free suffix starting with a snapshot: {}", i, pid, e))),
                        Ok((st, log)) => {
                            // every index in (purged, last] must have its entry in what remains
                            if let Some(last) = st.last {
                                let from = st.purged.map(|p| p.1 + 1).unwrap_or_else(|| log.keys().next().copied().unwrap_or(last.1));
                                let mut missing = vec![];
                                if st.purged.map(|p| p.1 < last.1).unwrap_or(true) {
                                    for ix in from..=last.1 {
                                        if !log.contains_key(&ix) {
                                            missing.push(ix);
                                            if missing.len() > 4 {
                                                break;
                                            }
                                        }
                                    }
                                }
                                // with nothing purged the log may legitimately start anywhere; only interior holes count
                                if st.purged.is_none() {
                                    let first = log.keys().next().copied();
                                    missing.retain(|ix| first.map(|f| *ix > f).unwrap_or(false));
                                }
                                if !missing.is_empty() {
                                    out.push(v(
                                        case,
                                        "needed_entry_deleted",
                                        format!(
                                            "event {}: chunk {} deleted, but replaying the durable bytes that remain gives purged={:?} last={:?} and no entry for index {:?}: the purge that obsoletes the deleted chunk is not durable in the remainder{}",
                                            i,
                                            pid,
                                            st.purged,
                                            st.last,
                                            missing,
                                            if sync_failed_before { " [a sync had failed]" } else { "" }
                                        ),
                                    ));
                                }
                            }
                        }
                    }
                }
            }
        }
        sh.apply(t, &e.k);
        if e.k.is_fs() {
            prev_unlink = is_unlink;
        }
    }
    out
}

/// End state (no fault, last op was flush+ack+idle): every closed chunk that holds nothing
/// above the purge point is gone. Ground truth is read from the directory.
pub fn check_end_state(case: &SchedCase, rr: &RunRec, stats: &mut C08Stats) -> Vec<Viol> {
    let mut out = vec![];
    if rr.worker_dead || rr.completed_steps < case.hist.steps.len() {
        return out;
    }
    // with injected faults the end state is judged only if the history's final flush was acknowledged Ok
    // (a successful sync makes every earlier purge durable, so postponed removals must have happened by now)
    if rr.faults_fired > 0 {
        let last_ok = rr.flushes.iter().rev().find(|f| f.cb).map(|f| crate::trace::ack_state(f.id) == Some(crate::trace::AckState::Ok)).unwrap_or(false);
        let ends_with_sync = matches!(case.hist.steps.last().map(|s| &s.op), Some(crate::store::Op::Sync));
        if !(last_ok && ends_with_sync) {
            return out;
        }
    }
    let img = crate::store::read_image(&rr.dir);
    // (a history that ends with a purge that was never flushed is judged on the state before that purge)
    let unflushed_tail = case.hist.tags.iter().any(|t| t == "ends_with_unflushed_purge") && rr.models.len() >= 2;
    let Some(final_model) = (if unflushed_tail { rr.models.get(rr.models.len() - 2) } else { rr.models.last() }) else { return out };
    let Some(purged) = final_model.st.purged else { return out };
    stats.end_state_checks += 1;
    // The statement speaks about the chunks that were closed when the purge was flushed: those
    // older than the chunk in which the last purge record was journalled. (A chunk that was still
    // open then and was closed later is only examined by the store at the next purge.)
    let mut purge_chunk_ix = None;
    for (k, (_, b)) in img.iter().enumerate() {
        // the record of the purge that is being judged (with an unflushed purge at the end of the history a later purge
        // record may be on disk as well, written by a rotation)
        if refcodec::parse_file(b).recs.iter().any(|(_, _, r)| matches!(r, Rec::Purge(id) if *id == purged || !unflushed_tail)) {
            purge_chunk_ix = Some(k);
        }
    }
    let Some(mut limit) = purge_chunk_ix else { return out };
    // a chunk that was closed BY the purge record itself (the record is its last one) was already closed when the
    // purge looked for obsolete chunks
    if limit + 1 < img.len() {
        if let Some((_, _, Rec::Purge(id))) = refcodec::parse_file(&img[limit].1).recs.last() {
            let _ = id;
            limit += 1;
        }
    }
    for k in 0..limit.min(img.len().saturating_sub(1)) {
        stats.end_state_closed_chunks_examined += 1;
        let p = refcodec::parse_file(&img[k].1);
        let has_above = p.recs.iter().any(|(_, _, r)| matches!(r, Rec::Append(id, _) if *id > purged));
        let next_head_last = refcodec::parse_file(&img[k + 1].1).recs.first().and_then(|(_, _, r)| if let Rec::State(s) = r { Some(s.last) } else { None }).flatten();
        let next_ok = next_head_last.map(|l| l <= purged).unwrap_or(true);
        if !has_above && next_ok {
            // Known finding D15: removals postponed after a failed sync live only in the worker's memory; a restart forgets
            // them and the chunk stays until the next purge. Matched only in histories with an injected sync failure AND a
            // restart; anywhere else a chunk left behind is reported under the general signature.
            let restart_after_sync_fault = rr.faults_fired > 0 && case.faults.iter().all(|f| f.kind == Sk::Sync) && case.hist.steps.iter().any(|s| matches!(s.op, crate::store::Op::Reopen(_)));
            let sig = if restart_after_sync_fault { "obsolete_chunk_not_deleted:removal_postponed_by_a_failed_sync_then_forgotten_by_a_restart" } else { "obsolete_chunk_not_deleted" };
            out.push(v(case, sig, format!("after the purge {:?} was flushed and the worker went idle, closed chunk {} is still on disk although it holds no entry above the purge point (next chunk's snapshot last={:?})", purged, img[k].0, next_head_last)));
            break;
        }
        // only the oldest remaining chunks can be obsolete
        if has_above {
            break;
        }
    }
    // what remains must be readable as a gap-free suffix
    let refs: Vec<(u64, &[u8])> = img.iter().map(|(a, b)| (*a, b.as_slice())).collect();
    if let Err(e) = replay_files(&refs) {
        out.push(v(case, "end_state_not_gap_free", format!("directory after the history: {}", e)));
    }
    out
}

pub fn gen_case(seed: u64, hist: u64) -> SchedCase {
    let mut r = Rng::new(seed);
    let mut p = GenParams::default();
    p.tiny_chunks = true;
    p.big_payloads = false;
    p.purge_heavy = true;
    p.flush_pm = 200;
    p.sync_pm = 40;
    p.min_ops = 20;
    p.max_ops = 60;
    p.end_sync = true;
    p.reopen_pm = if r.chance(1, 4) { 25 } else { 0 };
    let mut h = seq::gen_case(r.next(), hist, &p, "C08");
    // a sixth of the histories end with a purge that is never flushed, followed by the drop of the store (inside the
    // trace): nothing may be deleted on account of a purge that is recorded nowhere
    if r.chance(1, 6) {
        let mut m = crate::model::Model::new();
        for s in &h.steps {
            if s.op.is_write() && matches!(s.expect, crate::genr::Expect::Accept) {
                let _ = crate::genr::Gen::apply_to_model(&mut m, &s.op);
            }
        }
        // (only when a live entry above the purge point exists: otherwise the purge would be a no-op and journal nothing)
        if let Some(target) = m.log.values().map(|e| e.0).filter(|id| Some(*id) > m.st.purged && m.st.purged.map(|p| id.1 > p.1).unwrap_or(true)).last() {
            h.steps.push(crate::genr::Step { op: crate::store::Op::Purge(target), expect: crate::genr::Expect::Accept });
            h.tags.push("ends_with_unflushed_purge".into());
        }
    }
    let sched = sched::gen_sched(&mut r, h.steps.len());
    let w = r.below(100);
    let faults = if w < 50 {
        vec![]
    } else if w < 85 {
        vec![FaultSpec { role: Role::Worker, kind: Sk::Sync, nth: r.below(25) as u32, action: "eio".into() }]
    } else if w < 92 {
        // a burst: 4-8 consecutive failing fdatasyncs (several purge + flush rounds fail in a row, then syncs work again)
        let n = r.below(16) as u32;
        (0..r.range(4, 8) as u32).map(|k| FaultSpec { role: Role::Worker, kind: Sk::Sync, nth: n + k, action: "eio".into() }).collect()
    } else if w < 96 {
        let n = r.below(20) as u32;
        vec![FaultSpec { role: Role::Worker, kind: Sk::Sync, nth: n, action: "eio".into() }, FaultSpec { role: Role::Worker, kind: Sk::Sync, nth: n + 1 + r.below(3) as u32, action: "eio".into() }]
    } else if w < 98 {
        vec![FaultSpec { role: Role::Worker, kind: Sk::Write, nth: r.below(15) as u32, action: "eio".into() }]
    } else {
        // an unlink fails: whatever the worker does next, it must not delete a newer chunk while an older one is left
        vec![FaultSpec { role: Role::Worker, kind: Sk::Unlink, nth: r.below(6) as u32, action: "eio".into() }]
    };
    SchedCase { hist: h, sched, faults, reader_steps: vec![], gate_acks: false }
}

pub fn run_one(case: &SchedCase, stats: &mut C08Stats) -> Result<(RunRec, Vec<Viol>), RunErr> {
    let dir = util::fresh_dir("c08");
    let res = sched::run(case, &mut NoObserver, &dir);
    let out = match res {
        Ok(rr) => {
            let mut viols = check(case, &rr, stats);
            viols.extend(check_end_state(case, &rr, stats));
            Ok((rr, viols))
        }
        Err(e) => Err(e),
    };
    util::remove_dir(&dir);
    out
}

pub fn run_shard(ctx: &mut Ctx) {
    let mut r = Rng::new(ctx.shard_seed());
    let quick_n = 300u64;
    let mut h = 0u64;
    let mut stats = C08Stats::default();
    loop {
        if ctx.tier == Tier::Quick && h >= quick_n {
            break;
        }
        if !ctx.time_left() {
            break;
        }
        let case = gen_case(r.next(), h + ctx.shard as u64 * 1_000_000);
        h += 1;
        ctx.out.evaluations += 1;
        match run_one(&case, &mut stats) {
            Ok((rr, viols)) => {
                let unl = rr.trace.evs.iter().filter(|e| matches!(e.k, Ek::Unlink { res: 0, .. })).count();
                ctx.out.count("trace_events", rr.trace.evs.len() as u64);
                ctx.out.count("faults_injected", rr.faults_fired as u64);
                ctx.out.count("worker_stall_points", rr.stall_points);
                ctx.out.count("purge_records", rr.recs.iter().filter(|r| matches!(r, Rec::Purge(_))).count() as u64);
                if unl >= 1 && viols.is_empty() {
                    ctx.out.distinct.insert(sched::interleaving_hash(&rr.trace));
                }
                if unl >= 1 && ctx.out.samples.is_empty() {
                    ctx.out.sample(json!({"config": case.hist.cfg.to_json(), "ops": crate::genr::steps_brief(&case.hist.steps), "schedule": case.sched, "faults": case.faults.iter().map(|f| f.to_json()).collect::<Vec<_>>(), "trace_tail": rr.trace.evs.iter().rev().take(40).rev().map(|e| format!("{}:{}", &e.role.name()[..1], e.k.short())).collect::<Vec<_>>()}));
                }
                for vi in viols {
                    ctx.out.viol(vi);
                }
            }
            Err(RunErr::Viol(vi)) => ctx.out.viol(vi),
            Err(RunErr::Inconclusive(s)) => ctx.out.inconclusive.push(s),
        }
    }
    ctx.out.count("unlinks_checked", stats.unlinks);
    ctx.out.count("unlinks_in_histories_with_an_earlier_failed_sync", stats.unlinks_after_failed_sync_in_history);
    ctx.out.count("unlinks_directly_following_another_unlink", stats.unlinks_batched);
    ctx.out.count("deleted_chunks_that_contained_a_purge_record", stats.unlinks_with_purge_record_inside_deleted_chunk);
    ctx.out.count("durable_remainder_replays", stats.remainder_replays);
    ctx.out.count("end_state_checks", stats.end_state_checks);
    ctx.out.count("end_state_closed_chunks_examined", stats.end_state_closed_chunks_examined);
}

pub fn replay(vj: &serde_json::Value) -> Option<Viol> {
    let case = SchedCase::from_json(&vj["case"])?;
    let mut stats = C08Stats::default();
    match run_one(&case, &mut stats) {
        Ok((rr, v)) => {
            if std::env::var("RLMON_DEBUG").is_ok() {
                for (i, e) in rr.trace.evs.iter().enumerate() {
                    eprintln!("{:4} {:6} {}", i, e.role.name(), e.k.short());
                }
                eprintln!("paths: {:?}", rr.trace.paths.iter().map(|p| p.rsplit('/').next().unwrap_or("").to_string()).collect::<Vec<_>>());
            }
            v.into_iter().next()
        }
        Err(RunErr::Viol(v)) => Some(v),
        Err(RunErr::Inconclusive(s)) => {
            eprintln!("inconclusive: {}", s);
            None
        }
    }
}
