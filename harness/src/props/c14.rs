//! C14: dropping the store quiesces it.
//!
//! A scheduled history ends with purge + flush; the worker is stepped until the flush's
//! callback has fired and is then (typically) parked in front of its unlink calls. The store
//! is dropped on a helper thread and reopened at a seeded placement relative to the old
//! worker's remaining steps. Oracles: (1) trace rule — no directory-mutating call by the old
//! worker after `drop` returned; (2) the reopen succeeds and shows the acknowledged state;
//! (3) the new instance completes a further purge + flush.

use std::sync::Arc;
use std::sync::atomic::{AtomicBool, Ordering};

use serde_json::json;

use crate::frame::{Ctx, Tier, Viol};
use crate::genr::{Expect, GenParams, Step};
use crate::model::Model;
use crate::props::sched::{self, NoObserver, Observer, RunErr, Runner, SchedCase, Settle};
use crate::props::seq;
use crate::store::{Op, Outcome2, Store};
use crate::trace::{self, Ek, Role, Sk};
use crate::util::{self, Rng};

#[derive(Clone, Debug)]
pub struct C14Case {
    pub sc: SchedCase,
    /// 0: reopen right after drop returned (old worker wherever it is)
    /// 1: old worker advances `k` calls, then reopen
    /// 2: new opener parked inside open() (after listing, before opening chunk files) while the old worker finishes
    /// 3: old worker runs to its end first, then reopen
    pub placement: u8,
    pub k: u8,
    /// how long the old worker is kept parked while waiting for drop() to return (ms)
    pub hold_ms: u16,
    /// appends issued after the last acknowledged flush and never flushed (they may rotate the chunk)
    pub tail_writes: u8,
    /// while drop() has not returned and the old worker is parked, try to open the directory
    pub probe: bool,
    /// after the tail writes, issue one more flush WITH callback and drop without waiting for it: the callback
    /// must still fire exactly once (C04) and, if it reported Ok, the reopened store must show those writes
    pub unacked_final_flush: bool,
    /// the store is dropped by a panic unwinding through its owner
    pub drop_by_panic: bool,
}

impl C14Case {
    pub fn to_json(&self) -> serde_json::Value {
        json!({"sc": self.sc.to_json(), "placement": self.placement, "k": self.k, "hold_ms": self.hold_ms, "tail_writes": self.tail_writes, "probe": self.probe, "unacked_final_flush": self.unacked_final_flush, "drop_by_panic": self.drop_by_panic})
    }
    pub fn from_json(v: &serde_json::Value) -> Option<Self> {
        Some(C14Case {
            sc: SchedCase::from_json(&v["sc"])?,
            placement: v["placement"].as_u64()? as u8,
            k: v["k"].as_u64()? as u8,
            hold_ms: v["hold_ms"].as_u64().unwrap_or(50) as u16,
            tail_writes: v["tail_writes"].as_u64().unwrap_or(0) as u8,
            probe: v["probe"].as_bool().unwrap_or(false),
            unacked_final_flush: v["unacked_final_flush"].as_bool().unwrap_or(false),
            drop_by_panic: v["drop_by_panic"].as_bool().unwrap_or(false),
        })
    }
}

#[derive(Default, Debug)]
pub struct C14Stats {
    pub drop_returned_while_worker_parked: u64,
    pub drop_waited_for_worker: u64,
    pub pending_unlinks_at_drop: u64,
    pub pending_steps_at_drop: u64,
    pub reopen_while_old_worker_parked: u64,
    pub opener_parked_mid_open: u64,
    pub new_instance_flushes_acked: u64,
    pub old_worker_events_after_ack: u64,
    pub long_holds: u64,
    pub unflushed_tail_writes: u64,
    pub probes_refused_during_drop: u64,
    pub second_open_probes: u64,
}

fn v(case: &C14Case, sig: &str, text: String) -> Viol {
    Viol { prop: "C14".into(), sig: format!("C14:{}", sig), text, replay: json!({"kind": "c14", "case": case.to_json()}) }
}

pub fn gen_case(seed: u64, hist: u64) -> C14Case {
    let mut r = Rng::new(seed);
    let mut p = GenParams::default();
    p.tiny_chunks = true;
    p.big_payloads = false;
    p.purge_heavy = true;
    p.lower_term = false;
    p.flush_pm = 120;
    p.sync_pm = 30;
    p.min_ops = 10;
    p.max_ops = 35;
    let mut h = seq::gen_case(r.next(), hist, &p, "C14");
    // reads must not depend on the cache after the restart
    h.cfg.max_items = *r.pick(&[None, Some(0), Some(2)]);
    let sched = sched::gen_sched(&mut r, h.steps.len());
    let hold_ms = if r.chance(1, 5) { 400 } else { 50 };
    let tail_writes = *r.pick(&[0u8, 0, 1, 2, 3]);
    C14Case { sc: SchedCase { hist: h, sched, faults: vec![], reader_steps: vec![], gate_acks: true }, placement: r.below(5) as u8, k: r.range(1, 3) as u8, hold_ms, tail_writes, probe: r.chance(1, 2), unacked_final_flush: r.chance(1, 4), drop_by_panic: r.chance(1, 4) }
}

/// Grant permits to every parked thread except `except` until `until()` holds.
fn pump(except: Option<i32>, until: &dyn Fn() -> bool, timeout_s: f64) -> bool {
    let t0 = util::now_s();
    loop {
        if until() {
            return true;
        }
        for (tid, w, _) in trace::gate_all_lanes() {
            if w.is_some() && Some(tid) != except {
                trace::gate_grant(tid, 1);
            }
        }
        if util::now_s() - t0 > timeout_s {
            return false;
        }
        std::thread::yield_now();
    }
}

struct TailOut {
    old_tid: Option<i32>,
    viol: Option<Viol>,
    stats: C14Stats,
    done: bool,
}

/// The store must show one of the allowed models (the acknowledged state, or that plus a prefix of the
/// writes issued after the last acknowledged flush). Returns the index of the model it shows.
fn returned_early_placeholder(_s: &[trace::AckState]) -> bool {
    false
}

fn check_instance(case: &C14Case, st: &Store, allowed: &[Model], what: &str) -> Result<usize, Viol> {
    let got = st.state();
    let entries = match st.read_all() {
        Outcome2::Ok(e) => e,
        Outcome2::Err(e) => {
            if std::env::var("RLMON_DEBUG").is_ok() {
                eprintln!("DEBUG reopen_read_error stat {}", st.rl().stat());
                eprintln!("DEBUG resident {:?}", st.rl().verif_cache_resident());
                eprintln!("DEBUG dump {}", st.dump_live().unwrap_or_default());
            }
            return Err(v(case, "reopen_read_error", format!("{}: read failed: {}", what, e)));
        }
        Outcome2::Panic(p) => return Err(v(case, "reopen_read_panic", format!("{}: read panicked: {}", what, p))),
    };
    for (i, m) in allowed.iter().enumerate().rev() {
        if got == m.st && entries == m.entries() {
            return Ok(i);
        }
    }
    let m = &allowed[0];
    if got != m.st {
        return Err(v(case, "reopen_state", format!("{}: state {:?} is neither the acknowledged state {:?} nor that plus a prefix of the {} unflushed writes", what, got, m.st, allowed.len() - 1)));
    }
    Err(v(case, "reopen_entries", format!("{}: {}", what, seq::diff_entries(&entries, &m.entries()))))
}

pub fn run_one(case: &C14Case) -> Result<(C14Stats, Option<Viol>), RunErr> {
    let dir = util::fresh_dir("c14");
    let mut out = TailOut { old_tid: None, viol: None, stats: C14Stats::default(), done: false };
    let res = {
        let out = &mut out;
        let mut tail = |r: &mut Runner, _obs: &mut dyn Observer| -> Result<(), RunErr> {
            // --- final purge + flush with callback
            let mut rng = Rng::new(case.sc.hist.seed ^ 0x14);
            let purge_to = r.m.log.values().map(|e| e.0).filter(|id| Some(*id) > r.m.st.purged).nth(rng.below(3) as usize).or_else(|| r.m.log.values().last().map(|e| e.0));
            if let Some(id) = purge_to {
                let op = Op::Purge(id);
                if !r.st.write(&op).is_ok() {
                    return Err(RunErr::Inconclusive("final purge refused".into()));
                }
                let (recs, _) = crate::genr::Gen::apply_to_model(&mut r.m, &op);
                for rec in recs {
                    r.recs.push(rec);
                    r.models.push(r.m.clone());
                }
            }
            let (fid, fo) = r.do_flush(true);
            if !fo.is_ok() {
                return Err(RunErr::Viol(v(case, "flush_call_failed", format!("{}", fo.brief()))));
            }
            // --- step the worker until the callback of that flush has fired
            let mut guard = 0;
            loop {
                guard += 1;
                if trace::ack_state(fid).is_some() {
                    break;
                }
                match r.settle() {
                    Settle::AtGate(tid, _) => trace::gate_grant(tid, 1),
                    Settle::Idle => {
                        if trace::ack_state(fid).is_some() {
                            break;
                        }
                        return Err(RunErr::Viol(v(case, "no_ack", "worker idle but the last flush was never acknowledged".into())));
                    }
                    Settle::Dead => return Err(RunErr::Inconclusive("worker died".into())),
                    Settle::Timeout | Settle::Stuck(_) => return Err(RunErr::Inconclusive("worker did not settle".into())),
                }
                if guard > 100_000 {
                    return Err(RunErr::Inconclusive("ack never came".into()));
                }
            }
            if trace::ack_state(fid) != Some(trace::AckState::Ok) {
                return Err(RunErr::Viol(v(case, "ack_err", "last flush acknowledged with an error without any fault".into())));
            }
            // --- writes after the last acknowledged flush, never flushed
            let mut allowed: Vec<Model> = vec![r.m.clone()];
            // a term above every term the history mentioned: after a truncation back to the purge point, last.term + 1
            // can lie at or below a removed log id, which is the pattern of C07's known finding D7 (tiny caches here)
            let top_term = r.recs.iter().map(|x| x.max_term()).max().unwrap_or(0) + 1;
            for i in 0..case.tail_writes {
                let next = match r.m.st.last {
                    Some(l) => (top_term.max(l.0 + 1), l.1 + 1),
                    None => (top_term, r.m.st.purged.map(|p| p.1 + 1).unwrap_or(0)),
                };
                // mostly appends; sometimes a purge of an entry that is still there (it may make closed chunks obsolete)
                let purge_target = r.m.log.values().map(|e| e.0).filter(|id| Some(*id) > r.m.st.purged).next();
                let op = match (i % 3 == 1, purge_target) {
                    (true, Some(id)) => Op::Purge(id),
                    _ => Op::Append(vec![(next, format!("c14-tail-{}", i))]),
                };
                let o = r.st.write(&op);
                if !o.is_ok() {
                    return Err(RunErr::Viol(v(case, "tail_write_failed", format!("{} -> {}", op.brief(), o.brief()))));
                }
                crate::genr::Gen::apply_to_model(&mut r.m, &op);
                allowed.push(r.m.clone());
                out.stats.unflushed_tail_writes += 1;
            }
            let mut final_flush: Option<u64> = None;
            if case.unacked_final_flush {
                let (fid3, fo3) = r.do_flush(true);
                if !fo3.is_ok() {
                    return Err(RunErr::Viol(v(case, "flush_call_failed", fo3.brief())));
                }
                final_flush = Some(fid3);
            }
            // where is the old worker now?
            let parked = match r.settle() {
                Settle::AtGate(_, p) => Some(p),
                _ => None,
            };
            let old_tid = r.worker_tid;
            out.old_tid = old_tid;
            if let Some(p) = &parked {
                out.stats.pending_steps_at_drop += 1;
                if p.kind == Sk::Unlink {
                    out.stats.pending_unlinks_at_drop += 1;
                }
            }
            // --- placement 4: an opener that is already on its way when the drop starts. It is parked at the point
            // where open() is about to take the directory lock (whatever it did before that point, it did while the
            // old instance still owned the directory) and released only after drop() returned.
            type Slot = Arc<std::sync::Mutex<Option<Result<Store, crate::store::Outcome>>>>;
            let mut early: Option<(std::thread::JoinHandle<()>, Slot, Option<i32>)> = None;
            if case.placement == 4 {
                let cfg2 = r.st.cfg.clone();
                let dir2 = r.st.dir.clone();
                let slot: Slot = Arc::new(std::sync::Mutex::new(None));
                let s2 = slot.clone();
                let h = std::thread::Builder::new()
                    .name("rlmon_aux_early_opener".into())
                    .spawn(move || {
                        let r = Store::open(&dir2, &cfg2, 2);
                        *s2.lock().unwrap() = Some(r);
                    })
                    .expect("spawn opener");
                let t0 = util::now_s();
                let mut tid = None;
                while util::now_s() - t0 < 5.0 {
                    if slot.lock().unwrap().is_some() {
                        break;
                    }
                    if let Some((t, _, _)) = trace::gate_all_lanes().iter().find(|(_, w, _)| matches!(w, Some(p) if p.kind == Sk::OpenRd && p.path == trace::LOCK_POINT)) {
                        tid = Some(*t);
                        break;
                    }
                    std::thread::yield_now();
                }
                if tid.is_some() {
                    out.stats.opener_parked_mid_open += 1;
                }
                early = Some((h, slot, tid));
            }
            let early_tid = early.as_ref().and_then(|e| e.2);
            // --- drop on a helper thread
            let rl = r.st.rl.take().expect("store open");
            let inst = r.st.inst;
            let dropped = Arc::new(AtomicBool::new(false));
            let d2 = dropped.clone();
            let by_panic = case.drop_by_panic;
            let dropper = std::thread::Builder::new()
                .name("rlmon_dropper".into())
                .spawn(move || {
                    struct Done(Arc<AtomicBool>, u32);
                    impl Drop for Done {
                        fn drop(&mut self) {
                            trace::note(Ek::DropEnd { inst: self.1 });
                            self.0.store(true, Ordering::SeqCst);
                        }
                    }
                    // locals are dropped in reverse order: `rl` first, then `done`
                    let done = Done(d2, inst);
                    trace::note(Ek::DropBegin { inst });
                    let rl = rl;
                    if by_panic {
                        // the store is dropped while a panic unwinds through its owner
                        std::panic::resume_unwind(Box::new("rlmon: owner panics (deliberate)"));
                    }
                    drop(rl);
                    drop(done);
                })
                .expect("spawn dropper");
            // Give drop a moment. This wait decides only WHEN the parked worker is released; the
            // verdicts below are ordering facts of the trace.
            let t0 = util::now_s();
            let hold = case.hold_ms as f64 / 1000.0;
            if case.hold_ms > 100 {
                out.stats.long_holds += 1;
            }
            let mut probed = false;
            while !dropped.load(Ordering::SeqCst) && util::now_s() - t0 < hold {
                // drop() is in progress and the old worker is parked with work pending: nobody else may get the directory
                if case.probe && !probed && parked.is_some() && util::now_s() - t0 > 0.01 {
                    probed = true;
                    let alive = old_tid.map(trace::thread_alive).unwrap_or(false);
                    match Store::open(&r.st.dir, &r.st.cfg, 3) {
                        Ok(mut intruder) => {
                            if alive && old_tid.map(trace::thread_alive).unwrap_or(false) {
                                out.viol = Some(v(case, "directory_handed_over_before_worker_quiesced", "while drop() of the old instance had not returned and its worker thread was still alive with queued work, another open() of the directory succeeded".into()));
                            }
                            trace::gate_disable();
                            intruder.close();
                            let _ = dropper.join();
                            out.done = true;
                            return Ok(());
                        }
                        Err(_) => out.stats.probes_refused_during_drop += 1,
                    }
                }
                std::thread::yield_now();
            }
            let returned_early = dropped.load(Ordering::SeqCst);
            if returned_early && parked.is_some() {
                out.stats.drop_returned_while_worker_parked += 1;
            }
            if !returned_early {
                // a joining Drop: it can only return once the old worker has finished
                out.stats.drop_waited_for_worker += 1;
                let ok = pump(early_tid, &|| dropped.load(Ordering::SeqCst), 20.0);
                if !ok {
                    return Err(RunErr::Inconclusive("drop did not return although the worker was released".into()));
                }
            }
            let _ = dropper.join();
            if let Some(fid3) = final_flush {
                // drop() has returned: a quiesced store has invoked every pending callback exactly once
                let states = trace::ack_states(fid3);
                let fired: Vec<_> = states.iter().filter(|s| !matches!(s, trace::AckState::Dropped)).collect();
                if dropped.load(Ordering::SeqCst) && !returned_early_placeholder(&states) && fired.len() != 1 {
                    out.viol = Some(Viol { prop: "C04".into(), sig: "C04:ack_missing_at_shutdown".into(), text: format!("a flush with a callback was issued right before the store was dropped; drop() has returned and the callback fired {} time(s) ({:?})", fired.len(), states), replay: json!({"kind": "c14", "case": case.to_json()}) });
                    let _ = pump(early_tid, &|| !old_tid.map(trace::thread_alive).unwrap_or(false), 20.0);
                    out.done = true;
                    return Ok(());
                }
                if fired.len() == 1 && matches!(fired[0], trace::AckState::Ok) {
                    // acknowledged: the reopened store must show at least everything up to that flush
                    let keep = allowed.last().cloned().unwrap();
                    allowed = vec![keep];
                }
            }
            let old_alive = || old_tid.map(trace::thread_alive).unwrap_or(false);
            let release_old_fully = || pump(early_tid, &|| !old_tid.map(trace::thread_alive).unwrap_or(false), 20.0);
            let cfg = r.st.cfg.clone();
            let dirs = r.st.dir.clone();
            // --- reopen at the chosen placement
            let mut new_store: Option<Store> = None;
            match case.placement {
                0 => {
                    if old_alive() && parked.is_some() && returned_early {
                        out.stats.reopen_while_old_worker_parked += 1;
                    }
                }
                1 => {
                    // old worker advances k calls
                    for _ in 0..case.k {
                        if let Some(t) = old_tid {
                            let lanes = trace::gate_all_lanes();
                            if lanes.iter().any(|(tid, w, _)| *tid == t && w.is_some()) {
                                trace::gate_grant(t, 1);
                                // wait until it parks again or ends
                                let _ = pump(Some(t), &|| !trace::thread_alive(t) || trace::gate_all_lanes().iter().any(|(tid, w, _)| *tid == t && w.is_some()), 5.0);
                            }
                        }
                    }
                }
                2 => {
                    // opener parked inside open(): it has listed the directory and stops at its first chunk open64
                    let cfg2 = cfg.clone();
                    let dir2 = dirs.clone();
                    let slot: Arc<std::sync::Mutex<Option<Result<Store, crate::store::Outcome>>>> = Arc::new(std::sync::Mutex::new(None));
                    let s2 = slot.clone();
                    let opener = std::thread::Builder::new()
                        .name("rlmon_aux_opener".into())
                        .spawn(move || {
                            let r = Store::open(&dir2, &cfg2, 2);
                            *s2.lock().unwrap() = Some(r);
                        })
                        .expect("spawn opener");
                    // wait until the opener is parked at an open (or finished); nobody is granted anything meanwhile
                    let t0 = util::now_s();
                    let mut opener_tid = None;
                    while util::now_s() - t0 < 5.0 {
                        if slot.lock().unwrap().is_some() {
                            break;
                        }
                        if let Some((tid, _, _)) = trace::gate_all_lanes().iter().find(|(_, w, _)| matches!(w, Some(p) if p.kind == Sk::OpenRd)) {
                            opener_tid = Some(*tid);
                            break;
                        }
                        std::thread::yield_now();
                    }
                    if opener_tid.is_some() {
                        out.stats.opener_parked_mid_open += 1;
                    }
                    // the old worker performs its remaining steps while the opener is parked
                    let _ = pump(opener_tid, &|| !old_tid.map(trace::thread_alive).unwrap_or(false), 20.0);
                    // now let the opener finish
                    let _ = pump(old_tid, &|| slot.lock().unwrap().is_some(), 20.0);
                    let _ = opener.join();
                    match slot.lock().unwrap().take() {
                        Some(Ok(s)) => new_store = Some(s),
                        Some(Err(o)) => {
                            out.viol = Some(v(case, "reopen_failed", format!("open() running while the dropped instance's worker finishes its queued work: {}", o.brief())));
                            let _ = release_old_fully();
                            out.done = true;
                            return Ok(());
                        }
                        None => return Err(RunErr::Inconclusive("opener did not finish".into())),
                    }
                }
                4 => {
                    if !release_old_fully() {
                        return Err(RunErr::Inconclusive("old worker did not end".into()));
                    }
                    let (h, slot, _) = early.take().expect("early opener");
                    let _ = pump(old_tid, &|| slot.lock().unwrap().is_some(), 20.0);
                    let _ = h.join();
                    let taken = slot.lock().unwrap().take();
                    match taken {
                        Some(Ok(s)) => new_store = Some(s),
                        Some(Err(o)) => {
                            out.viol = Some(v(case, "reopen_failed", format!("an open() that was under way while the old instance was being dropped, and took the lock after drop() returned: {}", o.brief())));
                            out.done = true;
                            return Ok(());
                        }
                        None => return Err(RunErr::Inconclusive("early opener did not finish".into())),
                    }
                }
                _ => {
                    if !release_old_fully() {
                        return Err(RunErr::Inconclusive("old worker did not end".into()));
                    }
                }
            }
            if new_store.is_none() {
                // open on this thread; its own worker is not gated until it is spawned and has work
                match Store::open(&dirs, &cfg, 2) {
                    Ok(s) => new_store = Some(s),
                    Err(o) => {
                        out.viol = Some(v(case, "reopen_failed", format!("open() after flush-ack + drop (placement {}): {}", case.placement, o.brief())));
                        let _ = release_old_fully();
                        out.done = true;
                        return Ok(());
                    }
                }
            }
            let mut ns = new_store.unwrap();
            let model = match check_instance(case, &ns, &allowed, "right after reopen") {
                Ok(i) => allowed[i].clone(),
                Err(vi) => {
                    out.viol = Some(vi);
                    let _ = release_old_fully();
                    ns.close_released();
                    out.done = true;
                    return Ok(());
                }
            };
            // --- the old worker (if still there) finishes underneath the new instance
            if old_alive() && !release_old_fully() {
                return Err(RunErr::Inconclusive("old worker did not end".into()));
            }
            // --- the new instance keeps working: append, purge, flush, ack
            let mut m2 = model.clone();
            let last = m2.st.last;
            // (term above every term of the history, see the tail writes)
            let next = match last {
                Some(l) => (top_term.max(l.0 + 1) + 1, l.1 + 1),
                None => (top_term + 1, m2.st.purged.map(|p| p.1 + 1).unwrap_or(0)),
            };
            // before anything else: while this new instance is alive nobody else may open the directory (C13), whatever
            // the dropped instance left behind
            for as_dump in [false, true] {
                let c = cfg.to_config(&dirs);
                let second = crate::store::guarded(|| if as_dump { raft_log::Dump::<crate::store::V>::new(c).is_ok() } else { raft_log::RaftLog::<crate::store::V>::open(c).is_ok() });
                out.stats.second_open_probes += 1;
                if let Ok(true) = second {
                    out.viol = Some(Viol { prop: "C13".into(), sig: "C13:two_owners:after_handover".into(), text: format!("the directory was re-opened after flush-ack + drop (placement {}); while that new instance is alive a second {} opened it as well", case.placement, if as_dump { "Dump" } else { "RaftLog" }), replay: json!({"kind": "c14", "case": case.to_json()}) });
                    ns.close_released();
                    out.done = true;
                    return Ok(());
                }
            }
            for round in 0..2u64 {
                let next = (next.0, next.1 + round);
                // round 0: append + purge + flush; round 1: one more append + flush (the worker must still be serving)
                let ops = if round == 0 { vec![Op::Append(vec![(next, format!("c14-{}", next.1))]), Op::Purge(next)] } else { vec![Op::Append(vec![(next, format!("c14-{}", next.1))])] };
                for op in &ops {
                    let o = ns.write(op);
                    if !o.is_ok() {
                        out.viol = Some(v(case, "new_instance_write", format!("new instance: {} -> {}", op.brief(), o.brief())));
                        ns.close_released();
                        out.done = true;
                        return Ok(());
                    }
                    crate::genr::Gen::apply_to_model(&mut m2, op);
                }
                let (fid2, fo2) = ns.flush(true);
                if !fo2.is_ok() {
                    out.viol = Some(v(case, "new_instance_flush_call", format!("{}", fo2.brief())));
                    ns.close_released();
                    out.done = true;
                    return Ok(());
                }
                // The new worker is gated like any worker: pump it until the ack. No clock decides the verdict: "never
                // acknowledged" is concluded only from a state that cannot change any more - the new instance's worker thread
                // has ended, or it sleeps outside the gate with requests unprocessed and nothing moves (see Settle::Stuck).
                // Running out of time without either is inconclusive.
                let old = out.old_tid;
                let mut gone = false;
                let acked = pump(None, &|| trace::ack_state(fid2).is_some(), 0.3) || {
                    let t0 = util::now_s();
                    let mut res = false;
                    let mut still = 0u32;
                    let mut last_sig = (0u64, 0u64, 0usize);
                    loop {
                        if pump(None, &|| trace::ack_state(fid2).is_some(), 0.1) {
                            res = true;
                            break;
                        }
                        let new_workers: Vec<i32> = trace::gate_lanes(Role::Worker).into_iter().map(|l| l.0).filter(|t| Some(*t) != old).collect();
                        if !new_workers.is_empty() && new_workers.iter().all(|t| !trace::thread_alive(*t)) {
                            gone = true;
                            break;
                        }
                        let (s, d) = ns.seq();
                        let sig = (s, d, trace::ev_count());
                        let asleep = !new_workers.is_empty()
                            && new_workers.iter().all(|t| std::fs::read_to_string(format!("/proc/self/task/{}/stat", t)).ok().and_then(|x| x.rsplit(") ").next().and_then(|r| r.chars().next())) == Some('S'))
                            && !trace::gate_all_lanes().iter().any(|(_, w, _)| w.is_some());
                        if asleep && sig == last_sig && d < s {
                            still += 1;
                            if still >= 10 {
                                gone = true;
                                break;
                            }
                        } else {
                            still = 0;
                            last_sig = sig;
                        }
                        if util::now_s() - t0 > 60.0 {
                            break;
                        }
                    }
                    res
                };
                let (sent, done) = ns.seq();
                if !acked && !gone {
                    ns.close_released();
                    return Err(RunErr::Inconclusive("new instance: no acknowledgement within 60 s although its worker is alive and moving".into()));
                }
                if !acked || trace::ack_state(fid2) != Some(trace::AckState::Ok) {
                    out.viol = Some(v(
                        case,
                        "new_instance_flush_never_acked",
                        format!("new instance: purge + flush was not acknowledged Ok (callback {:?}, worker processed {}/{} requests): its worker stopped on the chunk files the dropped instance's worker removed underneath it", trace::ack_state(fid2), done, sent),
                    ));
                    ns.close_released();
                    out.done = true;
                    return Ok(());
                }
            }
            out.stats.new_instance_flushes_acked += 1;
            let _ = pump(None, &|| ns.idle(), 10.0);
            if let Err(vi) = check_instance(case, &ns, &[m2.clone()], "after purge+flush on the new instance") {
                out.viol = Some(vi);
            }
            ns.close_released();
            out.done = true;
            Ok(())
        };
        sched::run_with_tail(&case.sc, &mut NoObserver, &dir, Some(&mut tail), Role::Aux.bit(), Sk::OpenRd.bit())
    };
    util::remove_dir(&dir);
    let rr = res?;
    if let Some(vi) = out.viol.take() {
        return Ok((out.stats, Some(vi)));
    }
    // --- trace rule: nothing by the old worker after drop returned
    let t = &rr.trace;
    let drop_end = t.evs.iter().position(|e| matches!(e.k, Ek::DropEnd { inst: 1 }));
    if let (Some(de), Some(old)) = (drop_end, out.old_tid) {
        for (i, e) in t.evs.iter().enumerate().skip(de + 1) {
            if e.tid == old && e.k.mutates() {
                return Ok((
                    out.stats,
                    Some(v(case, &format!("old_worker_mutates_after_drop:{}", e.k.short().split(' ').next().unwrap_or("")), format!("event {}: `{}` by the dropped instance's worker thread after drop() had returned (event {})", i, e.k.short(), de))),
                ));
            }
        }
    }
    Ok((out.stats, None))
}

pub fn run_shard(ctx: &mut Ctx) {
    let mut r = Rng::new(ctx.shard_seed());
    // a snapshot of the old instance that outlives it (taken before its last purge): dropping it later must not touch
    // the directory
    {
        ctx.begin_phase(0.1);
        for k in 0..4u64 {
            if !ctx.time_left() {
                break;
            }
            if let Some(ci) = crate::props::image::make_clean_image(r.next(), 600_000 + k + ctx.shard as u64 * 1000, 3000) {
                match crate::props::c13x::snapshot_outlives_owner_round(&ci) {
                    Ok(Some(vi)) if vi.prop == "C14" => ctx.out.viol(vi),
                    Ok(_) => ctx.out.count("old_instance_snapshots_dropped_under_a_new_instance", 1),
                    Err(e) => ctx.out.inconclusive.push(format!("snapshot round: {}", e)),
                }
            }
        }
        ctx.end_phase();
    }
    let quick_n = 60u64;
    let mut h = 0u64;
    loop {
        if ctx.tier == Tier::Quick && h >= quick_n {
            break;
        }
        if !ctx.time_left() {
            break;
        }
        let case = gen_case(r.next(), h + ctx.shard as u64 * 1_000_000);
        h += 1;
        ctx.out.evaluations += 1;
        match run_one(&case) {
            Ok((s, vi)) => {
                ctx.out.count("drop_returned_while_old_worker_was_parked", s.drop_returned_while_worker_parked);
                ctx.out.count("drop_waited_for_the_worker(joining)", s.drop_waited_for_worker);
                ctx.out.count("histories_with_worker_steps_pending_at_drop", s.pending_steps_at_drop);
                ctx.out.count("histories_with_unlinks_pending_at_drop", s.pending_unlinks_at_drop);
                ctx.out.count("reopen_while_old_worker_still_parked", s.reopen_while_old_worker_parked);
                ctx.out.count("opener_parked_inside_open", s.opener_parked_mid_open);
                ctx.out.count("new_instance_purge_flush_acked", s.new_instance_flushes_acked);
                ctx.out.count("second_open_attempts_while_the_new_instance_was_alive", s.second_open_probes);
                ctx.out.count("cases_holding_the_worker_parked_for_400ms", s.long_holds);
                ctx.out.count("unflushed_writes_after_the_last_ack", s.unflushed_tail_writes);
                ctx.out.count("open_attempts_refused_while_drop_in_progress", s.probes_refused_during_drop);
                ctx.out.count(&format!("placement:{}", case.placement), 1);
                if vi.is_none() && s.pending_steps_at_drop > 0 {
                    ctx.out.distinct.insert(util::hash_str(&case.to_json().to_string()));
                }
                if h == 1 {
                    ctx.out.sample(json!({"config": case.sc.hist.cfg.to_json(), "ops": crate::genr::steps_brief(&case.sc.hist.steps), "schedule": case.sc.sched, "placement": case.placement, "k": case.k}));
                }
                if let Some(vi) = vi {
                    ctx.out.viol(vi);
                }
            }
            Err(RunErr::Viol(vi)) => ctx.out.viol(vi),
            Err(RunErr::Inconclusive(s)) => ctx.out.inconclusive.push(s),
        }
    }
}

pub fn replay(vj: &serde_json::Value) -> Option<Viol> {
    let case = C14Case::from_json(&vj["case"])?;
    match run_one(&case) {
        Ok((_, v)) => v,
        Err(RunErr::Viol(v)) => Some(v),
        Err(RunErr::Inconclusive(s)) => {
            eprintln!("inconclusive: {}", s);
            None
        }
    }
}

#[allow(dead_code)]
fn unused(_: Step, _: Expect) {}
