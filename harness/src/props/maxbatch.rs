//! "Full queue" scenario: the worker is parked at its first write while the caller pipelines
//! exactly as many flushes as the request queue holds (1024 more), so that the worker's next
//! batch is as large as a batch can get; then the worker is released. Oracles, each labelled with
//! its property: C04 (every Ack(Ok) sound, every callback fired once, in order), C11 (the chunk
//! files are byte-identical to the reference journal), C07 (after the chunk is closed and the
//! cache drained every entry reads back), C02 (clean restart shows the same state).

use serde_json::json;

use crate::frame::{ShardOut, Viol};
use crate::journal::RefJournal;
use crate::model::{Model, Rec};
use crate::props::c04;
use crate::props::sched::{FlushRec, RunRec, SchedCase, Settle, settle_raw};
use crate::props::seq::HistCase;
use crate::store::{self, CfgSpec, Op, Outcome2, Store};
use crate::trace::{self, Role, Sk, Trace};
use crate::util::{self, Rng};

fn v(prop: &str, sig: &str, text: String, seed: u64) -> Viol {
    Viol { prop: prop.into(), sig: format!("{}:{}", prop, sig), text: format!("full-queue scenario: {}", text), replay: json!({"kind": "maxbatch", "seed": seed.to_string()}) }
}

fn drain(st: &Store, tid: &mut Option<i32>) -> bool {
    let mut guard = 0u64;
    loop {
        guard += 1;
        match settle_raw(st.rl.as_ref(), tid) {
            Settle::AtGate(t, _) => trace::gate_grant(t, 1),
            Settle::Idle => return true,
            Settle::Dead | Settle::Timeout => return false,
        }
        if guard > 1_000_000 {
            return false;
        }
    }
}

/// Returns the violations found (possibly of several properties) and the number of requests that were queued.
pub fn run_one(seed: u64) -> Result<(Vec<Viol>, u64), String> {
    let mut r = Rng::new(seed);
    let dir = util::fresh_dir("maxbatch");
    let big = r.chance(1, 2); // > 1 MiB of queued data in half of the rounds
    let cfg = CfgSpec { max_records: Some(1060), max_size: None, read_buf: Some(4096), max_items: Some(3), capacity: None, truncate: None };
    trace::reset_acks();
    trace::begin(&dir);
    trace::gate_enable(Role::Worker.bit(), Sk::Write.bit() | Sk::Sync.bit() | Sk::Unlink.bit());
    let mut viols: Vec<Viol> = vec![];
    let mut queued = 0u64;
    let res = (|| -> Result<(), String> {
        let mut st = Store::open(&dir, &cfg, 1).map_err(|o| format!("open: {}", o.brief()))?;
        let mut m = Model::new();
        let mut j = RefJournal::new(&cfg);
        let mut flushes: Vec<FlushRec> = vec![];
        let mut nrec = 0usize;
        let mut wtid: Option<i32> = None;
        let mut do_write = |st: &mut Store, m: &mut Model, j: &mut RefJournal, op: Op, nrec: &mut usize| -> Result<(), String> {
            let o = st.write(&op);
            if !o.is_ok() {
                return Err(format!("{} -> {}", op.brief(), o.brief()));
            }
            let (recs, _) = crate::genr::Gen::apply_to_model(&mut m.clone(), &op);
            for rec in recs {
                m.apply(&rec);
                j.append(&rec, &m.st);
                *nrec += 1;
            }
            Ok(())
        };
        let mut do_flush = |st: &mut Store, flushes: &mut Vec<FlushRec>, cb: bool, nrec: usize| -> Result<(), String> {
            let gend = st.rl().stat().open_chunk.global_end;
            let ev = trace::ev_count();
            let (id, o) = st.flush(cb);
            if !o.is_ok() {
                return Err(format!("flush -> {}", o.brief()));
            }
            flushes.push(FlushRec { id, step: flushes.len(), writes_before: nrec, gend, cb, ev, removed: vec![], call_ok: true });
            Ok(())
        };
        // the request the worker will be holding while the queue fills up
        do_write(&mut st, &mut m, &mut j, Op::Vote((1, 1)), &mut nrec)?;
        do_flush(&mut st, &mut flushes, true, nrec)?;
        match settle_raw(st.rl.as_ref(), &mut wtid) {
            Settle::AtGate(..) => {}
            _ => return Err("worker did not park at its first write".into()),
        }
        // fill the queue: one Write request per flush, never more than the channel holds
        let mut idx = 0u64;
        loop {
            let (sent, done) = st.seq();
            if sent - done >= 1025 {
                break;
            }
            let payload = if big { format!("mb{}:{}", idx, "x".repeat(2100)) } else { format!("mb{}", idx) };
            if idx % 7 == 3 {
                do_write(&mut st, &mut m, &mut j, Op::Commit((1, idx.saturating_sub(1))), &mut nrec)?;
            } else {
                let next = m.st.last.map(|l| l.1 + 1).unwrap_or(0);
                do_write(&mut st, &mut m, &mut j, Op::Append(vec![((1, next), payload)]), &mut nrec)?;
            }
            do_flush(&mut st, &mut flushes, idx % 97 == 0, nrec)?;
            idx += 1;
            if idx > 1100 {
                return Err("queue never filled".into());
            }
        }
        let (sent, done) = st.seq();
        queued = sent - done;
        // One more flush from a helper thread: its send blocks on the full queue and completes as soon as the
        // worker takes the first queued request, so that the batch the worker is collecting at that moment can
        // grow beyond the queue's capacity (whether it lands in that very batch is up to the scheduler).
        {
            let next = m.st.last.map(|l| l.1 + 1).unwrap_or(0);
            do_write(&mut st, &mut m, &mut j, Op::Append(vec![((1, next), "blocked-sender".to_string())]), &mut nrec)?;
            let gend = st.rl().stat().open_chunk.global_end;
            let ev = trace::ev_count();
            let fid = trace::next_flush_id();
            flushes.push(FlushRec { id: fid, step: flushes.len(), writes_before: nrec, gend, cb: true, ev, removed: vec![], call_ok: true });
            trace::note(crate::trace::Ek::FlushCall { flush: fid, gend });
            let released = std::sync::atomic::AtomicBool::new(false);
            let mut flush_err = None;
            std::thread::scope(|sc| {
                let h = sc.spawn(|| {
                    use raft_log::api::raft_log_writer::RaftLogWriter;
                    let r = st.rl_mut().flush(Some(crate::store::AckCb::new(fid)));
                    released.store(true, std::sync::atomic::Ordering::SeqCst);
                    r.map_err(|e| e.to_string())
                });
                // give the helper time to block in send(), then let the worker go
                let t0 = util::now_s();
                while util::now_s() - t0 < 0.003 {
                    std::thread::yield_now();
                }
                let mut guard = 0u64;
                while !h.is_finished() && guard < 2_000_000 {
                    guard += 1;
                    for (t, w, _) in trace::gate_lanes(Role::Worker) {
                        if w.is_some() {
                            wtid = Some(t);
                            trace::gate_grant(t, 1);
                        }
                    }
                    std::thread::yield_now();
                }
                if let Ok(Err(e)) = h.join() {
                    flush_err = Some(e);
                }
            });
            if let Some(e) = flush_err {
                return Err(format!("blocked flush failed: {}", e));
            }
        }
        // release
        if !drain(&st, &mut wtid) {
            return Err("worker did not drain the full queue".into());
        }
        // --- C04 on the trace so far
        let tr_now: Trace = {
            // snapshot of the events recorded so far (the trace keeps running)
            let g = trace::lock();
            let t = g.as_ref().unwrap();
            Trace { prefix: t.prefix.clone(), paths: t.paths.clone(), path_ix: t.path_ix.clone(), evs: t.evs.clone(), faults: vec![], counters: t.counters, pread_calls: t.pread_calls, pread_bytes: t.pread_bytes, read_calls: t.read_calls }
        };
        let dummy = SchedCase { hist: HistCase { seed, hist: 0, cfg: cfg.clone(), steps: vec![], tags: vec![], plan: "C04".into(), create_fault: None }, sched: vec![], faults: vec![], reader_steps: vec![], gate_acks: false };
        let rr = RunRec { trace: tr_now, steps: vec![], flushes: flushes.clone(), models: vec![], recs: vec![], worker_dead: false, faults_fired: 0, completed_steps: 0, stall_points: 0, dir: dir.clone(), final_cfg: cfg.clone(), stop_reason: String::new() };
        let mut s4 = c04::C04Stats::default();
        for mut vi in c04::check(&dummy, &rr, &mut s4) {
            vi.text = format!("full-queue scenario ({} requests queued behind a parked worker): {}", queued, vi.text);
            vi.replay = json!({"kind": "maxbatch", "seed": seed.to_string()});
            viols.push(vi);
        }
        // --- C11: byte-exact journal
        let img = store::read_image(&dir);
        for (id, bytes) in &img {
            match j.file(*id) {
                Some(rf) if rf.bytes == *bytes => {}
                Some(rf) => {
                    let at = bytes.iter().zip(rf.bytes.iter()).position(|(a, b)| a != b).unwrap_or(bytes.len().min(rf.bytes.len()));
                    viols.push(v("C11", "file_bytes_differ", format!("after {} queued flushes were drained, chunk {} differs from the reference journal at byte {} (disk {} bytes, reference {} bytes)", queued, id, at, bytes.len(), rf.bytes.len()), seed));
                }
                None => viols.push(v("C11", "files_not_suffix", format!("unexpected chunk file {}", id), seed)),
            }
        }
        // --- C07: close the chunk, drain the cache, read everything from disk
        let mut k = 0;
        while st.rl().stat().closed_chunks.is_empty() && k < 200 {
            let next = m.st.last.map(|l| l.1 + 1).unwrap_or(0);
            do_write(&mut st, &mut m, &mut j, Op::Append(vec![((1, next), format!("tail{}", k))]), &mut nrec)?;
            k += 1;
        }
        do_flush(&mut st, &mut flushes, true, nrec)?;
        if !drain(&st, &mut wtid) {
            return Err("worker did not drain after rotation".into());
        }
        st.rl().drain_cache_evictable();
        for (how, res) in [("read(0,MAX)", st.read_all()), ("dump_data().iter()", st.iter_all())] {
            match res {
                Outcome2::Ok(e) if e == m.entries() => {}
                Outcome2::Ok(e) => viols.push(v("C07", "read_wrong", format!("{} after the chunk was closed and the cache drained: {}", how, crate::props::seq::diff_entries(&e, &m.entries())), seed)),
                Outcome2::Err(e) => viols.push(v("C07", "read_error:io", format!("{} after the chunk was closed and the cache drained failed: {}", how, e), seed)),
                Outcome2::Panic(p) => viols.push(v("C07", "read_error:panic", format!("{} panicked: {}", how, p), seed)),
            }
        }
        // --- C02: clean restart
        trace::gate_disable();
        let _ = st.wait_idle(10_000);
        let before = (st.state(), st.read_all());
        st.close();
        match Store::open(&dir, &cfg, 2) {
            Ok(mut s2) => {
                let after = (s2.state(), s2.read_all());
                if after != before {
                    viols.push(v("C02", "state_changed_by_restart", format!("{:?} -> {:?}", before.0, after.0), seed));
                }
                s2.close();
            }
            Err(o) => viols.push(v("C02", "reopen_failed", format!("open after the full-queue history was flushed and closed: {}", o.brief()), seed)),
        }
        let _: Option<Rec> = None;
        Ok(())
    })();
    trace::gate_disable();
    let _ = trace::end();
    util::remove_dir(&dir);
    res.map(|_| (viols, queued))
}

pub fn run(out: &mut ShardOut, rounds: u64, r: &mut Rng, t_left: &dyn Fn() -> bool) {
    for _ in 0..rounds {
        if !t_left() {
            break;
        }
        match run_one(r.next()) {
            Ok((vs, q)) => {
                out.count("full_queue_rounds", 1);
                out.count("full_queue_requests_in_flight_at_release", q);
                for vi in vs {
                    out.viol(vi);
                }
            }
            Err(e) => out.inconclusive.push(format!("full-queue scenario: {}", e)),
        }
    }
}

pub fn replay(vj: &serde_json::Value) -> Option<Viol> {
    let seed: u64 = vj["seed"].as_str()?.parse().ok()?;
    run_one(seed).ok().and_then(|(v, _)| v.into_iter().next())
}
