//! "Full queue" scenario: the worker is parked at its first write while the caller pipelines
//! exactly as many flushes as the request queue holds (1024 more), so that the worker's next
//! batch is as large as a batch can get; then the worker is released. Oracles, each labelled with
//! its property: C04 (every Ack(Ok) sound, every callback fired once, in order), C11 (the chunk
//! files are byte-identical to the reference journal), C07 (after the chunk is closed and the
//! cache drained every entry reads back), C02 (clean restart shows the same state).

use serde_json::json;

use crate::frame::{ShardOut, Viol};
use crate::journal::RefJournal;
use crate::model::{Model, Rec};
use crate::props::c04;
use crate::props::sched::{FlushRec, RunRec, SchedCase, Settle, settle_raw};
use crate::props::seq::HistCase;
use crate::store::{self, CfgSpec, Op, Outcome2, Store};
use crate::trace::{self, Role, Sk, Trace};
use crate::util::{self, Rng};

fn v(prop: &str, sig: &str, text: String, seed: u64) -> Viol {
    Viol { prop: prop.into(), sig: format!("{}:{}", prop, sig), text: format!("full-queue scenario: {}", text), replay: json!({"kind": "maxbatch", "seed": seed.to_string()}) }
}

/// Put a thread (0 = the calling one) on one CPU. Used to tilt the race "does the blocked sender's request arrive
/// while the worker is still collecting its batch" towards yes: with both on one CPU the sender, woken by the
/// worker's first recv(), often runs before the worker has drained the queue. (Priorities are left alone: a
/// low-priority worker starves on a loaded machine.)
fn pin(tid: i32, cpu: usize, _low_priority: bool) {
    unsafe {
        let mut set: libc::cpu_set_t = std::mem::zeroed();
        libc::CPU_SET(cpu, &mut set);
        libc::sched_setaffinity(tid, std::mem::size_of::<libc::cpu_set_t>(), &set);
    }
}

fn some_other_cpu() -> Option<usize> {
    unsafe {
        let mut set: libc::cpu_set_t = std::mem::zeroed();
        if libc::sched_getaffinity(0, std::mem::size_of::<libc::cpu_set_t>(), &mut set) != 0 {
            return None;
        }
        let me = libc::sched_getcpu();
        let cpus: Vec<usize> = (0..libc::CPU_SETSIZE as usize).filter(|c| libc::CPU_ISSET(*c, &set)).collect();
        if cpus.len() < 2 {
            return None;
        }
        let pos = cpus.iter().position(|c| *c as i32 == me).unwrap_or(0);
        Some(cpus[(pos + 1) % cpus.len()])
    }
}

/// Sizes of the worker's batches as the trace shows them: the write calls between two groups of sync calls.
pub fn batch_sizes(evs: &[crate::trace::Ev]) -> Vec<u64> {
    let mut out = vec![];
    let mut cur = 0u64;
    for e in evs {
        if e.role != Role::Worker {
            continue;
        }
        match &e.k {
            crate::trace::Ek::Write { .. } => cur += 1,
            crate::trace::Ek::Sync { .. } => {
                if cur > 0 {
                    out.push(cur);
                    cur = 0;
                }
            }
            _ => {}
        }
    }
    if cur > 0 {
        out.push(cur);
    }
    out
}

enum Drained {
    Idle,
    /// the worker sleeps with requests unprocessed (a request was lost): a stable state, see `Settle::Stuck`
    Stuck(String),
    No,
}

fn drain_x(st: &Store, tid: &mut Option<i32>) -> Drained {
    let mut guard = 0u64;
    loop {
        guard += 1;
        match settle_raw(st.rl.as_ref(), tid) {
            Settle::AtGate(t, _) => trace::gate_grant(t, 1),
            Settle::Idle => return Drained::Idle,
            Settle::Stuck(w) => return Drained::Stuck(w),
            Settle::Dead | Settle::Timeout => return Drained::No,
        }
        if guard > 1_000_000 {
            return Drained::No;
        }
    }
}

fn drain(st: &Store, tid: &mut Option<i32>) -> bool {
    matches!(drain_x(st, tid), Drained::Idle)
}

/// Returns the violations found (possibly of several properties) and the number of requests that were queued.
pub fn run_one(seed: u64) -> Result<(Vec<Viol>, u64), String> {
    run_one_x(seed).map(|(v, q, _)| (v, q))
}

/// Third result: the largest batch (write calls between syncs) the worker made.
pub fn run_one_x(seed: u64) -> Result<(Vec<Viol>, u64, u64), String> {
    let mut r = Rng::new(seed);
    let dir = util::fresh_dir("maxbatch");
    // queued data: a few kB / about 2 MiB / about 6 MiB in all
    let payload_len = *r.pick(&[0usize, 2100, 2100, 6000]);
    let big = payload_len > 0;
    let cfg = CfgSpec { max_records: Some(1060), max_size: None, read_buf: Some(4096), max_items: Some(3), capacity: None, truncate: None };
    trace::reset_acks();
    trace::begin(&dir);
    trace::gate_enable(Role::Worker.bit(), Sk::Write.bit() | Sk::Sync.bit() | Sk::Unlink.bit());
    let mut viols: Vec<Viol> = vec![];
    let mut queued = 0u64;
    let mut largest = 0u64;
    let tilt = r.chance(3, 4);
    let res = (|| -> Result<(), String> {
        let mut st = Store::open(&dir, &cfg, 1).map_err(|o| format!("open: {}", o.brief()))?;
        let mut m = Model::new();
        let mut j = RefJournal::new(&cfg);
        let mut flushes: Vec<FlushRec> = vec![];
        let mut nrec = 0usize;
        let mut wtid: Option<i32> = None;
        let mut do_write = |st: &mut Store, m: &mut Model, j: &mut RefJournal, op: Op, nrec: &mut usize| -> Result<(), String> {
            let o = st.write(&op);
            if !o.is_ok() {
                return Err(format!("{} -> {}", op.brief(), o.brief()));
            }
            let (recs, _) = crate::genr::Gen::apply_to_model(&mut m.clone(), &op);
            for rec in recs {
                m.apply(&rec);
                j.append(&rec, &m.st);
                *nrec += 1;
            }
            Ok(())
        };
        let mut do_flush = |st: &mut Store, flushes: &mut Vec<FlushRec>, cb: bool, nrec: usize| -> Result<(), String> {
            let gend = st.rl().stat().open_chunk.global_end;
            let ev = trace::ev_count();
            let (id, o) = st.flush(cb);
            if !o.is_ok() {
                return Err(format!("flush -> {}", o.brief()));
            }
            flushes.push(FlushRec { id, step: flushes.len(), writes_before: nrec, gend, cb, ev, removed: vec![], call_ok: true });
            Ok(())
        };
        // the request the worker will be holding while the queue fills up
        do_write(&mut st, &mut m, &mut j, Op::Vote((1, 1)), &mut nrec)?;
        do_flush(&mut st, &mut flushes, true, nrec)?;
        match settle_raw(st.rl.as_ref(), &mut wtid) {
            Settle::AtGate(..) => {}
            _ => return Err("worker did not park at its first write".into()),
        }
        // fill the queue: one Write request per flush, never more than the channel holds
        let mut idx = 0u64;
        loop {
            let (sent, done) = st.seq();
            if sent - done >= 1025 {
                break;
            }
            let payload = if big { format!("mb{}:{}", idx, "x".repeat(payload_len)) } else { format!("mb{}", idx) };
            if idx % 7 == 3 {
                do_write(&mut st, &mut m, &mut j, Op::Commit((1, idx.saturating_sub(1))), &mut nrec)?;
            } else {
                let next = m.st.last.map(|l| l.1 + 1).unwrap_or(0);
                do_write(&mut st, &mut m, &mut j, Op::Append(vec![((1, next), payload)]), &mut nrec)?;
            }
            do_flush(&mut st, &mut flushes, idx % 97 == 0, nrec)?;
            idx += 1;
            if idx > 1100 {
                return Err("queue never filled".into());
            }
        }
        let (sent, done) = st.seq();
        queued = sent - done;
        // One more flush from a helper thread: its send blocks on the full queue and completes as soon as the
        // worker takes the first queued request, so that the batch the worker is collecting at that moment can
        // grow beyond the queue's capacity (whether it lands in that very batch is up to the scheduler).
        {
            let next = m.st.last.map(|l| l.1 + 1).unwrap_or(0);
            do_write(&mut st, &mut m, &mut j, Op::Append(vec![((1, next), "blocked-sender".to_string())]), &mut nrec)?;
            let gend = st.rl().stat().open_chunk.global_end;
            let ev = trace::ev_count();
            let fid = trace::next_flush_id();
            flushes.push(FlushRec { id: fid, step: flushes.len(), writes_before: nrec, gend, cb: true, ev, removed: vec![], call_ok: true });
            trace::note(crate::trace::Ek::FlushCall { flush: fid, gend });
            let released = std::sync::atomic::AtomicBool::new(false);
            let mut flush_err = None;
            let cpu = if tilt { some_other_cpu() } else { None };
            if let (Some(c), Some(t)) = (cpu, wtid) {
                pin(t, c, true);
            }
            std::thread::scope(|sc| {
                let h = sc.spawn(|| {
                    use raft_log::api::raft_log_writer::RaftLogWriter;
                    if let Some(c) = cpu {
                        pin(0, c, false);
                    }
                    let r = st.rl_mut().flush(Some(crate::store::AckCb::new(fid)));
                    released.store(true, std::sync::atomic::Ordering::SeqCst);
                    r.map_err(|e| e.to_string())
                });
                // give the helper time to block in send(), then let the worker go
                let t0 = util::now_s();
                while util::now_s() - t0 < 0.003 {
                    std::thread::yield_now();
                }
                let mut guard = 0u64;
                while !h.is_finished() && guard < 2_000_000 {
                    guard += 1;
                    for (t, w, _) in trace::gate_lanes(Role::Worker) {
                        if w.is_some() {
                            wtid = Some(t);
                            trace::gate_grant(t, 1);
                        }
                    }
                    std::thread::yield_now();
                }
                if let Ok(Err(e)) = h.join() {
                    flush_err = Some(e);
                }
            });
            if let Some(e) = flush_err {
                // no I/O error was injected: a flush call that fails (instead of waiting for room in the queue) will
                // never invoke its callback. Carry on: what the following flushes acknowledge is judged below.
                viols.push(v("C04", "flush_call_failed:queue_full", format!("{} requests were queued behind a parked worker; one more flush(callback) returned Err({}) although no I/O error occurred: its callback is never invoked", queued, e), seed));
                if let Some(f) = flushes.last_mut() {
                    f.call_ok = false;
                }
            }
        }
        // release
        let mut lost = false;
        match drain_x(&st, &mut wtid) {
            Drained::Idle => {}
            Drained::Stuck(why) => {
                // the oracles below still apply: nothing moves any more
                lost = true;
                let unacked: Vec<u64> = flushes.iter().filter(|f| f.cb && trace::ack_state(f.id).is_none()).map(|f| f.id).collect();
                viols.push(v("C04", "callback_never_invoked:request_lost_by_the_worker", format!("{} requests were queued behind a parked worker and one more sender was blocked on the full queue; after the release: {}; flush call(s) {:?} with a callback were never acknowledged (no I/O error injected)", queued, why, unacked), seed));
            }
            Drained::No => return Err("worker did not drain the full queue".into()),
        }
        // --- C04 on the trace so far
        let tr_now: Trace = {
            // snapshot of the events recorded so far (the trace keeps running)
            let g = trace::lock();
            let t = g.as_ref().unwrap();
            Trace { prefix: t.prefix.clone(), paths: t.paths.clone(), path_ix: t.path_ix.clone(), evs: t.evs.clone(), faults: vec![], counters: t.counters, pread_calls: t.pread_calls, pread_bytes: t.pread_bytes, read_calls: t.read_calls }
        };
        largest = batch_sizes(&tr_now.evs).into_iter().max().unwrap_or(0);
        let dummy = SchedCase { hist: HistCase { seed, hist: 0, cfg: cfg.clone(), steps: vec![], tags: vec![], plan: "C04".into(), create_fault: None }, sched: vec![], faults: vec![], reader_steps: vec![], gate_acks: false };
        let rr = RunRec { trace: tr_now, steps: vec![], flushes: flushes.clone(), models: vec![], recs: vec![], worker_dead: false, faults_fired: 0, completed_steps: 0, stall_points: 0, dir: dir.clone(), final_cfg: cfg.clone(), stop_reason: String::new() };
        let mut s4 = c04::C04Stats::default();
        for mut vi in c04::check(&dummy, &rr, &mut s4) {
            vi.text = format!("full-queue scenario ({} requests queued behind a parked worker): {}", queued, vi.text);
            vi.replay = json!({"kind": "maxbatch", "seed": seed.to_string()});
            viols.push(vi);
        }
        // --- C11: byte-exact journal
        let img = store::read_image(&dir);
        for (id, bytes) in &img {
            match j.file(*id) {
                Some(rf) if rf.bytes == *bytes => {}
                Some(rf) => {
                    let at = bytes.iter().zip(rf.bytes.iter()).position(|(a, b)| a != b).unwrap_or(bytes.len().min(rf.bytes.len()));
                    viols.push(v("C11", "file_bytes_differ", format!("after {} queued flushes were drained, chunk {} differs from the reference journal at byte {} (disk {} bytes, reference {} bytes)", queued, id, at, bytes.len(), rf.bytes.len()), seed));
                }
                None => viols.push(v("C11", "files_not_suffix", format!("unexpected chunk file {}", id), seed)),
            }
        }
        // --- C03 / C05: the process dies now (every completed call kept): everything was acknowledged, so recovery must
        // succeed and show all of it
        if !lost {
            let idir = crate::props::crash::ImageDir::new("maxbatch-crash");
            let (res, _) = crate::props::image::open_and_read(&idir, &img, &cfg);
            match res {
                crate::props::image::Opened::Ok { state, entries: Ok(es) } => {
                    if state != m.st || es != m.entries() {
                        viols.push(v("C03", "acked_write_lost:process_crash_after_full_queue", format!("{} flushes were queued, drained and acknowledged; a process crash at this point recovers state {:?} with {} entries, acknowledged: {:?} with {} entries", queued, state, es.len(), m.st, m.entries().len()), seed));
                    }
                }
                crate::props::image::Opened::Ok { entries: Err(e), .. } => viols.push(v("C05", "read_error_after_recovery:full_queue", format!("recovery after a process crash following the drained full queue: read failed: {}", e), seed)),
                crate::props::image::Opened::Err(e) => viols.push(v("C05", "open_err:after_full_queue", format!("{} flushes were queued, drained and acknowledged; after a process crash at this point open() refuses: {}", queued, e), seed)),
                crate::props::image::Opened::Panic(p) => viols.push(v("C05", "open_panic:after_full_queue", p, seed)),
            }
        }
        if lost {
            // wait_worker_idle() and a joining drop would still work (the channel is empty), but the seq accounting is off:
            // stop here, the later steps wait for "idle"
            return Ok(());
        }
        // --- C07: close the chunk, drain the cache, read everything from disk
        let mut k = 0;
        while st.rl().stat().closed_chunks.is_empty() && k < 200 {
            let next = m.st.last.map(|l| l.1 + 1).unwrap_or(0);
            do_write(&mut st, &mut m, &mut j, Op::Append(vec![((1, next), format!("tail{}", k))]), &mut nrec)?;
            k += 1;
        }
        do_flush(&mut st, &mut flushes, true, nrec)?;
        if !drain(&st, &mut wtid) {
            return Err("worker did not drain after rotation".into());
        }
        st.rl().drain_cache_evictable();
        for (how, res) in [("read(0,MAX)", st.read_all()), ("dump_data().iter()", st.iter_all())] {
            match res {
                Outcome2::Ok(e) if e == m.entries() => {}
                Outcome2::Ok(e) => viols.push(v("C07", "read_wrong", format!("{} after the chunk was closed and the cache drained: {}", how, crate::props::seq::diff_entries(&e, &m.entries())), seed)),
                Outcome2::Err(e) => viols.push(v("C07", "read_error:io", format!("{} after the chunk was closed and the cache drained failed: {}", how, e), seed)),
                Outcome2::Panic(p) => viols.push(v("C07", "read_error:panic", format!("{} panicked: {}", how, p), seed)),
            }
        }
        // --- C04 once more, now including the flush that followed the full queue
        {
            let tr_now: Trace = {
                let g = trace::lock();
                let t = g.as_ref().unwrap();
                Trace { prefix: t.prefix.clone(), paths: t.paths.clone(), path_ix: t.path_ix.clone(), evs: t.evs.clone(), faults: vec![], counters: t.counters, pread_calls: t.pread_calls, pread_bytes: t.pread_bytes, read_calls: t.read_calls }
            };
            let dummy = SchedCase { hist: HistCase { seed, hist: 0, cfg: cfg.clone(), steps: vec![], tags: vec![], plan: "C04".into(), create_fault: None }, sched: vec![], faults: vec![], reader_steps: vec![], gate_acks: false };
            let rr = RunRec { trace: tr_now, steps: vec![], flushes: flushes.clone(), models: vec![], recs: vec![], worker_dead: false, faults_fired: 0, completed_steps: 0, stall_points: 0, dir: dir.clone(), final_cfg: cfg.clone(), stop_reason: String::new() };
            let mut s4 = c04::C04Stats::default();
            for mut vi in c04::check(&dummy, &rr, &mut s4) {
                if viols.iter().any(|x| x.sig == vi.sig) {
                    continue;
                }
                vi.text = format!("full-queue scenario, after the flush that followed it: {}", vi.text);
                vi.replay = json!({"kind": "maxbatch", "seed": seed.to_string()});
                viols.push(vi);
            }
        }
        // --- C02: clean restart
        trace::gate_disable();
        let _ = st.wait_idle(10_000);
        let before = (st.state(), st.read_all());
        st.close();
        match Store::open(&dir, &cfg, 2) {
            Ok(mut s2) => {
                let after = (s2.state(), s2.read_all());
                if after != before {
                    viols.push(v("C02", "state_changed_by_restart", format!("{:?} -> {:?}", before.0, after.0), seed));
                }
                s2.close();
            }
            Err(o) => viols.push(v("C02", "reopen_failed", format!("open after the full-queue history was flushed and closed: {}", o.brief()), seed)),
        }
        let _: Option<Rec> = None;
        Ok(())
    })();
    trace::gate_disable();
    let _ = trace::end();
    util::remove_dir(&dir);
    res.map(|_| (viols, queued, largest))
}

pub fn run(out: &mut ShardOut, rounds: u64, r: &mut Rng, t_left: &dyn Fn() -> bool) {
    for _ in 0..rounds {
        if !t_left() {
            break;
        }
        match run_one_x(r.next()) {
            Ok((vs, q, largest)) => {
                out.count("full_queue_rounds", 1);
                if largest >= 1025 {
                    out.count("full_queue_rounds_in_which_the_blocked_senders_request_joined_the_full_batch(1025_requests)", 1);
                }
                out.tag("full_queue_largest_batch", &largest.to_string());
                out.count("full_queue_requests_in_flight_at_release", q);
                for vi in vs {
                    out.viol(vi);
                }
            }
            Err(e) => out.inconclusive.push(format!("full-queue scenario: {}", e)),
        }
    }
}

pub fn replay(vj: &serde_json::Value) -> Option<Viol> {
    let seed: u64 = vj["seed"].as_str()?.parse().ok()?;
    run_one(seed).ok().and_then(|(v, _)| v.into_iter().next())
}
