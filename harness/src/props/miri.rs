//! Entry points meant to run under Miri (`cargo +nightly miri run -- miri <what> <seed> <n>`):
//! no syscall shim, no subprocesses. Miri is the undefined-behaviour / data-race detector;
//! the functional oracles are the same as in the native runs.

use crate::frame::Viol;
use crate::genr::GenParams;
use crate::model::Model;
use crate::props::codec;
use crate::props::seq;
use crate::store::{Outcome2, Store};
use crate::util::{self, Rng};

/// C12 on a reduced input set (no multi-gigabyte length prefixes).
pub fn miri_c12(seed: u64, n: u64) -> Result<u64, Viol> {
    let mut r = Rng::new(seed);
    let mut decodes = 0u64;
    for _ in 0..n {
        let rec = codec::gen_rec(&mut r, false);
        decodes += codec::check_roundtrip(&rec, &mut r)?;
        let good = crate::refcodec::encode(&rec);
        if good.len() > 400 {
            continue;
        }
        for _ in 0..6 {
            let mut b = good.clone();
            let p = r.below(b.len() as u64) as usize;
            b[p] ^= 1 << r.below(8);
            codec::check_arbitrary(&b)?;
            decodes += 1;
        }
        let cut = r.below(good.len() as u64) as usize;
        codec::check_arbitrary(&good[..cut])?;
        let rnd: Vec<u8> = (0..r.below(40)).map(|_| r.next() as u8).collect();
        codec::check_arbitrary(&rnd)?;
        decodes += 2;
    }
    Ok(decodes)
}

/// C07 scaled down: one history, free-running worker, reader threads reading concurrently with the
/// caller's flushes; every result must equal the model. Miri checks the execution for UB and data races.
pub fn miri_c07(seed: u64, nops: usize) -> Result<u64, Viol> {
    let mut p = GenParams::default();
    p.big_payloads = false;
    p.small_cache = true;
    p.tiny_chunks = true;
    p.lower_term = false;
    p.min_ops = nops;
    p.max_ops = nops;
    p.flush_pm = 200;
    p.sync_pm = 0;
    let mut case = seq::gen_case(seed, 1, &p, "C07");
    case.cfg.read_buf = Some(64);
    for s in case.steps.iter_mut() {
        if let crate::store::Op::Append(es) = &mut s.op {
            for e in es.iter_mut() {
                e.1.truncate(24);
            }
        }
    }
    let dir = util::fresh_dir("miri07");
    let mut run = match seq::Runner::new(&case, &dir) {
        Ok(r) => r,
        Err(v) => return Err(v),
    };
    run.check_each = false;
    let mut reads = 0u64;
    let mut max_removed = None;
    let mut prev: Model = Model::new();
    for i in 0..case.steps.len() {
        run.step(i)?;
        // D7 pattern bookkeeping (same rule as the native observer)
        for (ix, (id, pl)) in prev.log.iter() {
            let still = run.m.log.get(ix).map(|(a, b)| a == id && b == pl).unwrap_or(false);
            let purged = run.m.st.purged.map(|pg| *ix <= pg.1).unwrap_or(false);
            if !still && !purged && Some(*id) > max_removed {
                max_removed = Some(*id);
            }
        }
        prev = run.m.clone();
        if i % 3 == 2 {
            let want = run.m.entries();
            let rl = run.st.rl();
            let results = std::sync::Mutex::new(Vec::new());
            std::thread::scope(|s| {
                for _ in 0..2 {
                    s.spawn(|| {
                        let a = rl.read(0, u64::MAX).collect::<Result<Vec<_>, _>>().map_err(|e| e.to_string());
                        results.lock().unwrap().push(a);
                        let mut d = rl.dump_data();
                        let b = d.iter().collect::<Result<Vec<_>, _>>().map_err(|e| e.to_string());
                        results.lock().unwrap().push(b);
                    });
                }
            });
            for res in results.into_inner().unwrap() {
                reads += 1;
                match res {
                    Ok(v) if v == want => {}
                    Ok(v) => return Err(Viol { prop: "C07".into(), sig: "C07:concurrent_reader_wrong".into(), text: format!("miri run: {}", seq::diff_entries(&v, &want)), replay: serde_json::json!({"kind": "miri", "what": "c07", "seed": seed.to_string()}) }),
                    Err(e) => {
                        let known = (e.contains("Chunk not found") || e.contains("failed to fill whole buffer")) && want.iter().any(|(id, _)| Some(*id) <= max_removed);
                        let sig = if known { "C07:read_error:reappended_entry_not_above_removed_ids:chunk_not_found" } else { "C07:concurrent_reader_error" };
                        return Err(Viol { prop: "C07".into(), sig: sig.into(), text: format!("miri run: reader failed: {}", e), replay: serde_json::json!({"kind": "miri", "what": "c07", "seed": seed.to_string()}) });
                    }
                }
            }
        }
    }
    let _ = run.st.sync();
    match run.st.read_all() {
        Outcome2::Ok(v) if v == run.m.entries() => {}
        other => return Err(Viol { prop: "C07".into(), sig: "C07:read_wrong".into(), text: format!("miri run: final read {:?}", matches!(other, Outcome2::Ok(_))), replay: serde_json::json!({"kind": "miri", "what": "c07"}) }),
    }
    run.st.close();
    let _: Option<Store> = None;
    util::remove_dir(&dir);
    Ok(reads)
}

pub fn main(args: &[String]) -> i32 {
    let what = args.get(2).map(|s| s.as_str()).unwrap_or("");
    let seed: u64 = args.get(3).and_then(|s| s.parse().ok()).unwrap_or(1);
    let n: u64 = args.get(4).and_then(|s| s.parse().ok()).unwrap_or(10);
    let res = match what {
        "c12" => miri_c12(seed, n),
        "c07" => miri_c07(seed, n as usize),
        _ => return 2,
    };
    match res {
        Ok(k) => {
            println!("MIRI-OK what={} seed={} n={} observations={}", what, seed, n, k);
            0
        }
        Err(v) => {
            println!("MIRI-VIOL {} :: {}", v.sig, v.text);
            1
        }
    }
}
