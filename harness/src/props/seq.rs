//! Sequential explorer: drives the real store and the reference model in
//! lock-step over generated histories. Serves C01, C02, C06, C11 (each oracle is
//! labelled with the property it belongs to; a check command only counts its own).

use serde_json::{Value, json};

use crate::frame::{Ctx, ShardOut, Tier, Viol};
use crate::genr::{self, Expect, Gen, GenParams, Step};
use crate::journal::RefJournal;
use crate::model::{LogId, MState, Model};
use crate::refcodec;
use crate::store::{self, CfgSpec, Op, Outcome, Outcome2, Store};
use crate::util::{self, Rng};

#[derive(Clone, Debug)]
pub struct HistCase {
    pub seed: u64,
    pub hist: u64,
    pub cfg: CfgSpec,
    pub steps: Vec<Step>,
    pub tags: Vec<String>,
    /// which property's generation / checking plan produced it
    pub plan: String,
    /// inject EIO into the n-th chunk-file creation by the caller thread (n >= 1: a rotation)
    pub create_fault: Option<u32>,
}

impl HistCase {
    pub fn to_json(&self) -> Value {
        json!({"plan": self.plan, "create_fault": self.create_fault, "seed": self.seed.to_string(), "hist": self.hist, "cfg": self.cfg.to_json(), "steps": genr::steps_to_json(&self.steps), "tags": self.tags})
    }
    pub fn from_json(v: &Value) -> Option<HistCase> {
        Some(HistCase {
            seed: v["seed"].as_str()?.parse().ok()?,
            hist: v["hist"].as_u64()?,
            cfg: CfgSpec::from_json(&v["cfg"]),
            steps: genr::steps_from_json(&v["steps"])?,
            tags: v["tags"].as_array().map(|a| a.iter().filter_map(|t| t.as_str().map(|x| x.to_string())).collect()).unwrap_or_default(),
            plan: v["plan"].as_str().unwrap_or("C01").to_string(),
            create_fault: v["create_fault"].as_u64().map(|x| x as u32),
        })
    }
    pub fn brief(&self) -> Value {
        json!({"cfg": self.cfg.to_json(), "ops": genr::steps_brief(&self.steps)})
    }
}

pub fn gen_case(seed: u64, hist: u64, p: &GenParams, plan: &str) -> HistCase {
    let mut r = Rng::new(seed);
    let mut p2 = p.clone();
    if (plan == "C02" || plan == "C06") && r.chance(1, 2) {
        // "when the chunk and cache limits differ between runs": tiny cache limits at the first open and at
        // every restart, so that reads after a restart are served from disk. These histories never re-append
        // at or below a removed log id (that pattern is C07's known finding D7).
        p2.small_cache = true;
        p2.lower_term = false;
        p2.big_payloads = false;
    }
    let p = &p2;
    let cfg = genr::gen_config(&mut r, p);
    let mut g = Gen::new(r.next(), hist, p.clone());
    let mut steps = g.history();
    if plan == "C16" || ((plan == "C06" || plan == "C01" || plan == "C11") && !p.small_cache && r.chance(1, 3)) {
        // (C06: calls with arguments at the integer limits that the specification refuses must be refused)
        let n = g.r.range(6, 16) as usize;
        g.adversarial_burst(n, &mut steps);
        if plan == "C11" {
            // what the accepted calls of the burst journalled is compared byte for byte as well
            steps.push(genr::Step { op: Op::Sync, expect: Expect::Accept });
        }
    }
    HistCase { seed, hist, cfg, steps, tags: g.tags.iter().map(|s| s.to_string()).collect(), plan: plan.to_string(), create_fault: if (plan == "C02" && r.chance(1, 3)) || (plan == "C11" && r.chance(1, 4)) { Some(r.range(1, 6) as u32) } else { None } }
}

#[derive(Default, Debug)]
pub struct RunStats {
    pub ops: u64,
    pub writes: u64,
    pub records: u64,
    pub rotations: u64,
    pub reads: u64,
    pub entries_read: u64,
    pub rejections: u64,
    pub restarts: u64,
    pub final_restarts: u64,
    pub syncs: u64,
    pub journal_checks: u64,
    pub files_compared: u64,
    pub segments_checked: u64,
    pub adversarial: u64,
    pub adversarial_diverged: u64,
    pub io_faults_hit: u64,
    pub kinds: std::collections::BTreeMap<String, u64>,
    pub reject_kinds: std::collections::BTreeMap<String, u64>,
}

pub struct Runner<'a> {
    pub case: &'a HistCase,
    pub st: Store,
    pub m: Model,
    pub j: RefJournal,
    pub stats: RunStats,
    pub r: Rng,
    pub step_ix: usize,
    /// check state / reads / iteration after every op (C01)
    pub check_each: bool,
    /// set when the rest of the history is no longer meaningful (not a violation)
    pub stop: bool,
    /// an injected I/O fault has hit a write: the byte-exact journal prediction no longer applies
    pub faulted: bool,
    pub faults_seen: usize,
    /// the remaining pre-generated steps no longer fit the state (a fault cut a batch short): end the history,
    /// the final flush + restart still applies
    pub cut_short: bool,
    inst: u32,
}

fn viol(prop: &str, sig: &str, text: String, case: &HistCase, step: usize) -> Viol {
    Viol { prop: prop.to_string(), sig: format!("{}:{}", prop, sig), text, replay: json!({"kind": "seq", "case": case.to_json(), "step": step}) }
}

impl<'a> Runner<'a> {
    pub fn new(case: &'a HistCase, dir: &str) -> Result<Self, Viol> {
        let st = match Store::open(dir, &case.cfg, 1) {
            Ok(s) => s,
            Err(o) => return Err(viol("C01", "open_empty_dir", format!("open of an empty directory: {}", o.brief()), case, 0)),
        };
        Ok(Runner { case, st, m: Model::new(), j: RefJournal::new(&case.cfg), stats: RunStats::default(), r: Rng::new(case.seed ^ 0xabcdef), step_ix: 0, check_each: true, stop: false, faulted: false, faults_seen: 0, cut_short: false, inst: 1 })
    }

    fn v(&self, prop: &str, sig: &str, text: String) -> Viol {
        viol(prop, sig, format!("step {} [{}]: {}", self.step_ix, self.case.steps.get(self.step_ix).map(|s| s.op.brief()).unwrap_or_default(), text), self.case, self.step_ix)
    }

    /// C01: state and reads equal the model's.
    pub fn check_state_and_reads(&mut self, prop: &str) -> Result<(), Viol> {
        let got = self.st.state();
        if got != self.m.st {
            return Err(self.v(prop, "state_mismatch", format!("state {:?} != model {:?}", got, self.m.st)));
        }
        let want = self.m.entries();
        match self.st.read_all() {
            Outcome2::Ok(v) => {
                self.stats.reads += 1;
                self.stats.entries_read += v.len() as u64;
                if v != want {
                    return Err(self.v(prop, "read_all_mismatch", diff_entries(&v, &want)));
                }
            }
            Outcome2::Err(e) => return Err(self.v(prop, "read_error", format!("read(0,MAX) failed: {}", e))),
            Outcome2::Panic(p) => return Err(self.v(prop, "read_panic", format!("read(0,MAX) panicked: {}", p))),
        }
        // random sub-ranges around the live window
        let lo = self.m.first_index().unwrap_or(0);
        let hi = self.m.st.last.map(|l| l.1).unwrap_or(0);
        for _ in 0..3 {
            let a = lo.saturating_sub(2).saturating_add(self.r.below(hi.saturating_sub(lo).saturating_add(5)));
            let b = a.saturating_add(self.r.below(hi.saturating_sub(lo).saturating_add(5)));
            let want = self.m.range(a, b);
            match self.st.read(a, b) {
                Outcome2::Ok(v) => {
                    self.stats.reads += 1;
                    if v != want {
                        return Err(self.v(prop, "read_range_mismatch", format!("read({},{}) {}", a, b, diff_entries(&v, &want))));
                    }
                }
                Outcome2::Err(e) => return Err(self.v(prop, "read_error", format!("read({},{}) failed: {}", a, b, e))),
                Outcome2::Panic(p) => return Err(self.v(prop, "read_panic", format!("read({},{}) panicked: {}", a, b, p))),
            }
        }
        Ok(())
    }

    /// C11 (bookkeeping part): stat() agrees with the reference journal.
    pub fn check_stat(&mut self) -> Result<(), Viol> {
        if self.faulted {
            return Ok(());
        }
        let s = self.st.rl().stat();
        let rf = self.j.files.last().unwrap();
        let o = &s.open_chunk;
        if o.chunk_id.0 != rf.id || o.global_start != rf.id || o.global_end != self.j.end() || o.records_count != rf.nrec as u64 || o.size != rf.bytes.len() as u64 {
            return Err(self.v(
                "C11",
                "stat_open_chunk",
                format!("open chunk stat id={} [{},{}) n={} size={} != reference id={} end={} n={}", o.chunk_id.0, o.global_start, o.global_end, o.records_count, o.size, rf.id, self.j.end(), rf.nrec),
            ));
        }
        let mut prev_end: Option<u64> = None;
        for c in s.closed_chunks.iter() {
            let Some(r) = self.j.file(c.chunk_id.0) else {
                return Err(self.v("C11", "stat_closed_unknown", format!("closed chunk {} is not a file of the reference journal", c.chunk_id.0)));
            };
            if c.global_start != r.id || c.global_end != r.id + r.bytes.len() as u64 || c.records_count != r.nrec as u64 {
                return Err(self.v("C11", "stat_closed_chunk", format!("closed chunk {} [{},{}) n={} != reference len={} n={}", c.chunk_id.0, c.global_start, c.global_end, c.records_count, r.bytes.len(), r.nrec)));
            }
            if let Some(pe) = prev_end {
                if pe != c.global_start {
                    return Err(self.v("C11", "stat_not_contiguous", format!("closed chunks not contiguous: {} -> {}", pe, c.global_start)));
                }
            }
            prev_end = Some(c.global_end);
        }
        if let Some(pe) = prev_end {
            if pe != o.global_start {
                return Err(self.v("C11", "stat_not_contiguous", format!("last closed ends {} but open starts {}", pe, o.global_start)));
            }
        }
        Ok(())
    }

    /// C11: the directory is byte-identical to the reference journal (for the files that remain),
    /// names are offsets, files abut, on_disk_size is right, Dump (real decoder) agrees.
    pub fn check_journal(&mut self) -> Result<(), Viol> {
        if self.faulted {
            return Ok(());
        }
        self.stats.journal_checks += 1;
        let img = store::read_image(&self.st.dir);
        if img.is_empty() {
            return Err(self.v("C11", "no_chunk_files", "directory holds no chunk file".into()));
        }
        // retained ids must be a suffix of the reference file ids
        let ref_ids: Vec<u64> = self.j.files.iter().map(|f| f.id).collect();
        let got_ids: Vec<u64> = img.iter().map(|f| f.0).collect();
        if !ref_ids.ends_with(&got_ids) {
            return Err(self.v("C11", "files_not_suffix", format!("chunk files on disk {:?} are not a suffix of the reference journal's files {:?}", got_ids, ref_ids)));
        }
        for (id, bytes) in &img {
            let rf = self.j.file(*id).unwrap();
            self.stats.files_compared += 1;
            if *bytes != rf.bytes {
                let at = bytes.iter().zip(rf.bytes.iter()).position(|(a, b)| a != b).unwrap_or(bytes.len().min(rf.bytes.len()));
                let p = refcodec::parse_file(bytes);
                return Err(self.v(
                    "C11",
                    "file_bytes_differ",
                    format!(
                        "chunk {} differs from the reference journal at byte {} (disk len {}, reference len {}; disk parses to {} records: {:?})",
                        id,
                        at,
                        bytes.len(),
                        rf.bytes.len(),
                        p.recs.len(),
                        p.recs.iter().map(|r| r.2.kind()).collect::<Vec<_>>()
                    ),
                ));
            }
        }
        // abutting
        for w in img.windows(2) {
            if w[0].0 + w[0].1.len() as u64 != w[1].0 {
                return Err(self.v("C11", "files_do_not_abut", format!("chunk {} ends at {} but next is {}", w[0].0, w[0].0 + w[0].1.len() as u64, w[1].0)));
            }
        }
        let ods = self.st.rl().on_disk_size();
        let want = self.j.end() - img[0].0;
        if ods != want {
            return Err(self.v("C11", "on_disk_size", format!("on_disk_size()={} but oldest retained chunk {} .. journal end {} = {}", ods, img[0].0, self.j.end(), want)));
        }
        // the crate's own decoder (Dump through the live store) must see the same records
        let mut seen: Vec<(u64, u64, u64, crate::model::Rec)> = vec![];
        let mut dump_err = None;
        {
            use raft_log::DumpApi;
            let rl = self.st.rl();
            let r = rl.dump().write_with(|cid, _i, res| {
                match res {
                    Ok((seg, rec)) => seen.push((cid.0, seg.offset, seg.size, store::wal_to_rec(&rec))),
                    Err(e) => dump_err = Some(e.to_string()),
                }
                Ok(())
            });
            if let Err(e) = r {
                dump_err = Some(e.to_string());
            }
        }
        if let Some(e) = dump_err {
            return Err(self.v("C11", "dump_error", format!("dump of a clean journal failed: {}", e)));
        }
        let mut want_seen = vec![];
        for (id, bytes) in &img {
            for (s, e, r) in refcodec::parse_file(bytes).recs {
                want_seen.push((*id, s as u64, (e - s) as u64, r));
            }
        }
        if seen != want_seen {
            return Err(self.v("C11", "dump_disagrees", format!("Dump saw {} records, reference parse {}", seen.len(), want_seen.len())));
        }
        Ok(())
    }

    fn snapshot(&self) -> Result<Snap, String> {
        let rl = self.st.rl();
        let s = rl.stat();
        let (_b, resident) = rl.verif_cache_resident();
        let entries = match self.st.read_all() {
            Outcome2::Ok(v) => v,
            Outcome2::Err(e) => return Err(format!("read failed: {}", e)),
            Outcome2::Panic(p) => return Err(format!("read panicked: {}", p)),
        };
        Ok(Snap { state: self.st.state(), entries, cache_items: s.payload_cache_item_count, cache_size: s.payload_cache_size, resident, on_disk: rl.on_disk_size(), gend: s.open_chunk.global_end, nrec: s.open_chunk.records_count })
    }

    pub fn do_sync(&mut self, prop: &str) -> Result<(), Viol> {
        self.stats.syncs += 1;
        self.st.sync().map_err(|e| if e.starts_with("TIMEOUT") { self.v("HARNESS", "wait_ran_out_of_time", e) } else { self.v(prop, "sync_failed", format!("flush+ack+idle failed without injected fault: {}", e)) })
    }

    pub fn step(&mut self, i: usize) -> Result<(), Viol> {
        self.step_ix = i;
        let step = &self.case.steps[i];
        self.stats.ops += 1;
        *self.stats.kinds.entry(step.op.kind().to_string()).or_insert(0) += 1;
        match (&step.op, &step.expect) {
            (op, Expect::Accept) if op.is_write() => {
                let out = self.st.write(op);
                let (recs, res) = {
                    // feed the journal record by record so heads carry the right state
                    let mut m2 = self.m.clone();
                    let r = Gen::apply_to_model(&mut m2, op);
                    r
                };
                if res.is_err() {
                    return Err(self.v("HARNESS", "generator_expect", "generator marked as accepted a call the model rejects".into()));
                }
                match &out {
                    Outcome::Ok(seg) => {
                        self.stats.writes += 1;
                        let mut last_pos = None;
                        for r in &recs {
                            self.m.apply(r);
                            let (off, size, rot) = self.j.append(r, &self.m.st);
                            if rot {
                                self.stats.rotations += 1;
                            }
                            self.stats.records += 1;
                            last_pos = Some((off, size));
                        }
                        if self.faulted {
                            last_pos = None;
                        }
                        if let (Some(want), Some(got)) = (last_pos, seg) {
                            self.stats.segments_checked += 1;
                            if want != *got {
                                return Err(self.v("C11", "returned_segment", format!("call returned segment [{},+{}) but its record is at [{},+{})", got.0, got.1, want.0, want.1)));
                            }
                        }
                    }
                    Outcome::Err(e) => {
                        if crate::trace::fired_faults() > self.faults_seen {
                            // An injected I/O error surfaced in this call (chunk rotation failed). The record itself
                            // had been journalled and applied before the rotation was attempted; a batch stops at
                            // the entry that hit the error. Follow what the store reports and keep going: what
                            // matters (C02) is that a later flush + restart shows this same state.
                            self.faults_seen = crate::trace::fired_faults();
                            self.stats.io_faults_hit += 1;
                            let last_now = self.st.state().last;
                            let mut applied = recs.len();
                            if let Op::Append(es) = op {
                                applied = es.iter().position(|(id, _)| Some(*id) == last_now).map(|p| p + 1).unwrap_or(0);
                            }
                            // the reference journal follows: the applied records are journalled, the rotation that the
                            // last of them should have triggered did not happen
                            let mut rotated_last = false;
                            for r in recs.iter().take(applied) {
                                self.m.apply(r);
                                let (_, _, rot) = self.j.append(r, &self.m.st);
                                rotated_last = rot;
                                self.stats.records += 1;
                            }
                            if rotated_last {
                                self.j.undo_last_rotation();
                            } else {
                                // the failure was not at the rotation this model predicts: stop predicting bytes
                                self.faulted = true;
                            }
                            if applied < recs.len() {
                                // a batch cut short: the rest of the pre-generated history no longer fits the state
                                self.cut_short = true;
                            }
                        } else {
                            return Err(self.v("C01", "accepted_write_refused", format!("specification accepts, store returned Err({})", e)));
                        }
                    }
                    Outcome::Panic(p) => return Err(self.v("C01", "write_panic", format!("legal write panicked: {}", p))),
                }
            }
            (op, Expect::Reject { why, at }) => {
                self.stats.rejections += 1;
                *self.stats.reject_kinds.entry(why.clone()).or_insert(0) += 1;
                // quiesce the worker so that nothing moves underneath the snapshot
                if !self.st.wait_idle(20_000) {
                    return Err(self.v("HARNESS", "idle_timeout", "worker not idle".into()));
                }
                let before = self.snapshot().map_err(|e| self.v("C06", "snapshot_before", e))?;
                let out = self.st.write(op);
                // the part of a batch before the refused entry is accepted
                let mut m2 = self.m.clone();
                let (recs, res) = Gen::apply_to_model(&mut m2, op);
                if res.is_ok() {
                    return Err(self.v("HARNESS", "generator_expect", "generator marked as rejected a call the model accepts".into()));
                }
                if crate::trace::fired_faults() > self.faults_seen {
                    // an injected chunk-creation failure ended this batch before the refused entry was reached:
                    // follow what the store reports; the rejection oracle does not apply to this call
                    self.faults_seen = crate::trace::fired_faults();
                    self.stats.io_faults_hit += 1;
                    let last_now = self.st.state().last;
                    let mut applied = 0;
                    if let Op::Append(es) = op {
                        applied = es.iter().position(|(id, _)| Some(*id) == last_now).map(|p| p + 1).unwrap_or(0).min(recs.len());
                    }
                    let mut rotated_last = false;
                    for r in recs.iter().take(applied) {
                        self.m.apply(r);
                        let (_, _, rot) = self.j.append(r, &self.m.st);
                        rotated_last = rot;
                        self.stats.records += 1;
                    }
                    if rotated_last {
                        self.j.undo_last_rotation();
                    } else if applied > 0 {
                        self.faulted = true;
                    }
                    self.cut_short = true;
                    return Ok(());
                }
                for r in &recs {
                    self.m.apply(r);
                    let (_, _, rot) = self.j.append(r, &self.m.st);
                    if rot {
                        self.stats.rotations += 1;
                    }
                    self.stats.records += 1;
                }
                match &out {
                    Outcome::Err(_) => {}
                    Outcome::Ok(_) => return Err(self.v("C06", &format!("rejected_call_returned_ok:{}", why), format!("specification rejects ({}), store returned Ok", why))),
                    Outcome::Panic(p) => return Err(self.v("C06", &format!("rejected_call_panicked:{}", why), format!("panic: {}", p))),
                }
                let after = self.snapshot().map_err(|e| self.v("C06", &format!("unreadable_after_rejection:{}", why), e))?;
                if *at == 0 {
                    if let Some(d) = before.diff(&after) {
                        return Err(self.v("C06", &format!("trace_left:{}:{}", why, d.0), format!("after rejected {}: {}", why, d.1)));
                    }
                } else {
                    if after.state != self.m.st || after.entries != self.m.entries() {
                        return Err(self.v("C06", &format!("trace_left:{}:state", why), format!("after partly rejected batch: state/entries differ from the accepted prefix")));
                    }
                    if after.gend != self.j.end() {
                        return Err(self.v("C06", &format!("trace_left:{}:journal_end", why), format!("journal end {} != {} expected for the accepted prefix", after.gend, self.j.end())));
                    }
                }
            }
            (op, Expect::Any) => {
                // C16: every public call returns normally, whatever the arguments
                let out = match op {
                    Op::Read(a, b) => match self.st.read(*a, *b) {
                        Outcome2::Ok(_) => Outcome::Ok(None),
                        Outcome2::Err(e) => Outcome::Err(e),
                        Outcome2::Panic(p) => Outcome::Panic(p),
                    },
                    Op::Misc(k) => self.st.misc(*k),
                    Op::Flush { cb } => self.st.flush(*cb).1,
                    w => self.st.write(w),
                };
                self.stats.adversarial += 1;
                if let Outcome::Panic(p) = &out {
                    let loc = p.rsplit(" @ ").next().unwrap_or("?").to_string();
                    return Err(self.v("C16", &format!("panic:{}:{}", op.kind(), loc), format!("{} panicked: {}", op.brief(), p)));
                }
                if op.is_write() {
                    let mut m2 = self.m.clone();
                    let (recs, res) = Gen::apply_to_model(&mut m2, op);
                    let prefix_applies = match &res {
                        Ok(()) => out.is_ok(),
                        Err((_, at)) => *at > 0 && out.is_err(),
                    };
                    if res.is_err() && out.is_ok() && !matches!(op, Op::UpdateState(_)) {
                        // the specification refuses this call (an argument at the integer limits included) and the
                        // store accepted it: that is C06's subject whatever check is running
                        let why = match &res {
                            Err((rj, _)) => format!("{:?}", rj),
                            _ => String::new(),
                        };
                        return Err(self.v("C06", "rejected_call_returned_ok:limit_argument", format!("specification rejects {} ({}), store returned Ok; state before: {:?}", op.brief(), why, self.m.st)));
                    }
                    if res.is_ok() != out.is_ok() {
                        // specification and store disagree on an argument at the limits: not C16's
                        // subject; stop here so that later calls are not aimed at a wrong state
                        self.stats.adversarial_diverged += 1;
                        *self.stats.reject_kinds.entry(format!("limit_argument_disagreement:{}:spec_{}_store_{}", op.brief().chars().take(60).collect::<String>(), if res.is_ok() { "accepts" } else { "rejects" }, if out.is_ok() { "accepts" } else { "rejects" })).or_insert(0) += 1;
                        if std::env::var("RLMON_DEBUG").is_ok() && res.is_ok() {
                            eprintln!("DISAGREE step {} {} -> {} ; model {:?} first={:?} ; store {:?} ; ops {:?}", self.step_ix, op.brief(), out.brief(), self.m.st, self.m.first_index(), self.st.state(), crate::genr::steps_brief(&self.case.steps[..=self.step_ix]));
                        }
                        self.stop = true;
                    } else if res.is_ok() || prefix_applies {
                        for r in &recs {
                            self.m.apply(r);
                            self.j.append(r, &self.m.st);
                        }
                        // specification and store agree that the call is accepted: then they must agree on its effect too
                        // (C01; the journal bytes are compared at the next flush by C11's rule)
                        if !matches!(op, Op::UpdateState(_)) {
                            let got = self.st.state();
                            if got != self.m.st {
                                return Err(self.v("C01", "state_mismatch:limit_argument", format!("after accepted {}: store state {:?}, reference {:?}", op.brief(), got, self.m.st)));
                            }
                        }
                    }
                    if matches!(op, Op::UpdateState(_)) {
                        self.stop = true;
                    }
                }
                // reading everything back must not panic either
                if !self.stop {
                    if let Outcome2::Panic(p) = self.st.read_all() {
                        let loc = p.rsplit(" @ ").next().unwrap_or("?").to_string();
                        return Err(self.v("C16", &format!("panic:read_after_{}:{}", op.kind(), loc), format!("read(0,MAX) after {} panicked: {}", op.brief(), p)));
                    }
                }
            }
            (Op::Flush { cb }, _) => {
                let (_id, out) = self.st.flush(*cb);
                if !out.is_ok() {
                    return Err(self.v("C01", "flush_call_failed", format!("flush returned {}", out.brief())));
                }
            }
            (Op::Sync, _) => {
                self.do_sync("C01")?;
                self.check_journal()?;
            }
            (Op::Reopen(newcfg), _) => {
                self.do_sync("C02")?;
                // (what the journal check finds is C11's; the restart is judged first and that finding reported after it)
                let journal_err = self.check_journal().err();
                let before = self.snapshot().map_err(|e| self.v("C02", "snapshot_before_close", e))?;
                let live_dump = self.st.dump_live().map_err(|e| self.v("C02", "dump_failed", e))?;
                self.st.close();
                let closed_dump = store::dump_dir(&self.st.dir, newcfg).map_err(|e| self.v("C02", "dump_closed_failed", format!("Dump of the closed directory failed: {}", e)))?;
                if closed_dump != live_dump {
                    return Err(self.v("C02", "dump_changed_by_close", "dump text before close differs from dump of the closed directory".into()));
                }
                self.inst += 1;
                let dir = self.st.dir.clone();
                match Store::open(&dir, newcfg, self.inst) {
                    Ok(s) => self.st = s,
                    Err(o) => return Err(self.v("C02", "reopen_failed", format!("open after clean close: {}", o.brief()))),
                }
                self.j.set_limits(newcfg);
                self.stats.restarts += 1;
                let after = self.snapshot().map_err(|e| self.v("C02", "unreadable_after_restart", e))?;
                if before.state != after.state {
                    return Err(self.v("C02", "state_changed_by_restart", format!("{:?} -> {:?}", before.state, after.state)));
                }
                if before.entries != after.entries {
                    return Err(self.v("C02", "entries_changed_by_restart", diff_entries(&after.entries, &before.entries)));
                }
                let after_dump = self.st.dump_live().map_err(|e| self.v("C02", "dump_failed", e))?;
                if after_dump != closed_dump {
                    return Err(self.v("C02", "dump_changed_by_open", "directory dump differs after open".into()));
                }
                if let Some(j) = journal_err {
                    return Err(j);
                }
            }
            (Op::Misc(k), Expect::Accept) => {
                // read-only public calls in the middle of a history must not disturb it
                let o = self.st.misc(*k);
                if !o.is_ok() {
                    return Err(self.v("C11", "dump_error", format!("misc call {} in the middle of a clean history: {}", k, o.brief())));
                }
            }
            (Op::Read(a, b), _) => {
                let want = self.m.range(*a, *b);
                match self.st.read(*a, *b) {
                    Outcome2::Ok(v) if v == want => {}
                    Outcome2::Ok(v) => return Err(self.v("C01", "read_range_mismatch", diff_entries(&v, &want))),
                    Outcome2::Err(e) => return Err(self.v("C01", "read_error", e)),
                    Outcome2::Panic(p) => return Err(self.v("C01", "read_panic", p)),
                }
            }
            _ => {}
        }
        if self.check_each && !matches!(step.expect, Expect::Any) {
            // after a restart or a rejection the same oracle serves C02 / C06
            let prop = match (&step.op, &step.expect) {
                (Op::Reopen(_), _) => "C02",
                (_, Expect::Reject { .. }) => "C06",
                _ => "C01",
            };
            self.check_state_and_reads(prop)?;
            self.check_stat()?;
        }
        Ok(())
    }
}

#[derive(Debug, Clone, PartialEq)]
pub struct Snap {
    pub state: MState,
    pub entries: Vec<(LogId, String)>,
    pub cache_items: u64,
    pub cache_size: u64,
    pub resident: Vec<(LogId, u64)>,
    pub on_disk: u64,
    pub gend: u64,
    pub nrec: u64,
}

impl Snap {
    pub fn diff(&self, o: &Snap) -> Option<(&'static str, String)> {
        if self.state != o.state {
            return Some(("state", format!("state {:?} -> {:?}", self.state, o.state)));
        }
        if self.entries != o.entries {
            return Some(("entries", diff_entries(&o.entries, &self.entries)));
        }
        if self.cache_items != o.cache_items || self.cache_size != o.cache_size {
            return Some(("cache_stat", format!("cache items/size {}/{} -> {}/{}", self.cache_items, self.cache_size, o.cache_items, o.cache_size)));
        }
        if self.resident != o.resident {
            return Some(("cache_resident", format!("resident set changed: {} -> {} entries", self.resident.len(), o.resident.len())));
        }
        if self.gend != o.gend || self.nrec != o.nrec {
            return Some(("journal_end", format!("journal end/records {}/{} -> {}/{}: the refused call was journalled", self.gend, self.nrec, o.gend, o.nrec)));
        }
        if self.on_disk != o.on_disk {
            return Some(("on_disk_size", format!("on_disk_size {} -> {}", self.on_disk, o.on_disk)));
        }
        None
    }
}

pub fn diff_entries(got: &[(LogId, String)], want: &[(LogId, String)]) -> String {
    let g: Vec<LogId> = got.iter().map(|e| e.0).collect();
    let w: Vec<LogId> = want.iter().map(|e| e.0).collect();
    if g != w {
        return format!("ids got {:?} want {:?}", trunc_ids(&g), trunc_ids(&w));
    }
    for (a, b) in got.iter().zip(want.iter()) {
        if a.1 != b.1 {
            return format!("payload of {:?}: got {:?} want {:?}", a.0, crate::model::short(&a.1), crate::model::short(&b.1));
        }
    }
    "equal".into()
}

fn trunc_ids(v: &[LogId]) -> Vec<LogId> {
    if v.len() > 12 { v[v.len() - 12..].to_vec() } else { v.to_vec() }
}

/// Run one case completely. Returns the first violation, if any.
pub fn run_case(case: &HistCase, check_each: bool, final_restart: bool) -> (RunStats, Option<Viol>, Vec<Viol>) {
    let dir = util::fresh_dir("seq");
    crate::trace::reset_acks();
    if let Some(n) = case.create_fault {
        crate::trace::begin(&dir);
        crate::trace::set_faults(vec![crate::trace::Fault { role: crate::trace::Role::Caller, kind: crate::trace::Sk::Create, nth: n, action: crate::trace::FaultAction::Eio, fired: false }]);
    }
    let mut res = None;
    let mut side: Vec<Viol> = vec![];
    let stats;
    match Runner::new(case, &dir) {
        Err(v) => {
            stats = RunStats::default();
            res = Some(v);
        }
        Ok(mut r) => {
            r.check_each = check_each;
            for i in 0..case.steps.len() {
                if let Err(mut v) = r.step(i) {
                    // "continues to accept writes with the same semantics": once a restart has happened, a failure of
                    // the lock-step oracle in a C02 history is a C02 failure
                    if case.plan == "C02" && v.prop == "C01" && r.stats.restarts >= 1 {
                        v.prop = "C02".into();
                        v.sig = v.sig.replacen("C01:", "C02:after_restart:", 1);
                    }
                    // an oracle of another property failed: note it, keep driving this history
                    // (its own oracles are still meaningful) unless the store is no longer usable
                    if v.prop != case.plan && v.prop != "HARNESS" && !v.sig.contains("panic") {
                        // (one witness per signature; a side failure that repeats at every step must not end the history
                        // before its own oracles - e.g. the next restart - had their turn)
                        if side.len() < 6 && !side.iter().any(|x| x.sig == v.sig) {
                            side.push(v);
                        }
                        continue;
                    }
                    res = Some(v);
                    break;
                }
                if r.stop || r.cut_short {
                    break;
                }
            }
            // (after a burst of adversarial calls the state need not be one a Raft-legal history can produce - e.g. a purge
            // with a higher term and a lower index than live entries - and restart equivalence is not claimed for it)
            let had_burst = case.steps.iter().any(|s| matches!(s.expect, Expect::Any));
            if res.is_none() && final_restart && !r.stop && !had_burst {
                // flush + restart at the end: the store must open and show the same state
                r.step_ix = case.steps.len();
                let plan_label: &str = if case.plan == "C02" { "C02" } else { "C06" };
                let mut journal_side: Option<Viol> = None;
                let fin = (|| -> Result<(), Viol> {
                    r.do_sync(plan_label)?;
                    // (a disagreement between the files and the reference journal is C11's finding; the restart is judged anyway)
                    if let Err(jv) = r.check_journal() {
                        if jv.prop == plan_label {
                            return Err(jv);
                        }
                        journal_side = Some(jv);
                    }
                    let before = r.snapshot().map_err(|e| r.v(plan_label, "snapshot_before_close", e))?;
                    r.st.close();
                    let dirc = r.st.dir.clone();
                    let cfg = r.case.cfg.clone();
                    match Store::open(&dirc, &cfg, 99) {
                        Ok(s) => r.st = s,
                        Err(o) => return Err(r.v(plan_label, "reopen_failed_after_rejections", format!("open after flush: {}", o.brief()))),
                    }
                    r.stats.final_restarts += 1;
                    let after = r.snapshot().map_err(|e| r.v(plan_label, "unreadable_after_restart", e))?;
                    if before.state != after.state || before.entries != after.entries {
                        return Err(r.v(plan_label, "state_changed_by_restart", format!("{:?} -> {:?}", before.state, after.state)));
                    }
                    Ok(())
                })();
                if let Err(v) = fin {
                    res = Some(v);
                }
                if let Some(jv) = journal_side {
                    if !side.iter().any(|x| x.sig == jv.sig) {
                        side.push(jv);
                    }
                }
            }
            r.st.close();
            stats = std::mem::take(&mut r.stats);
        }
    }
    if case.create_fault.is_some() {
        let _ = crate::trace::end();
    }
    util::remove_dir(&dir);
    (stats, res, side)
}

pub struct SeqPlan {
    pub params: GenParams,
    pub check_each: bool,
    pub final_restart: bool,
    pub quick_histories: u64,
}

pub fn plan_for(prop: &str) -> SeqPlan {
    let mut p = GenParams::default();
    match prop {
        "C01" => SeqPlan { params: p, check_each: true, final_restart: false, quick_histories: 200 },
        "C02" => {
            p.reopen_pm = 60;
            // some refused calls too: a history is any sequence of calls, and a refused call must not
            // stand in the way of the next restart
            p.reject_pm = 40;
            SeqPlan { params: p, check_each: true, final_restart: true, quick_histories: 120 }
        }
        "C06" => {
            p.reject_pm = 250;
            p.big_payloads = false;
            p.sync_pm = 60;
            SeqPlan { params: p, check_each: true, final_restart: true, quick_histories: 200 }
        }
        "C16" => {
            p.min_ops = 0;
            p.max_ops = 40;
            p.big_payloads = false;
            SeqPlan { params: p, check_each: false, final_restart: false, quick_histories: 600 }
        }
        _ => {
            // C11
            p.sync_pm = 80;
            p.end_sync = true;
            p.reopen_pm = 15;
            SeqPlan { params: p, check_each: true, final_restart: false, quick_histories: 150 }
        }
    }
}

fn add_stats(out: &mut ShardOut, s: &RunStats) {
    out.count("ops", s.ops);
    out.count("accepted_writes", s.writes);
    out.count("records_journalled", s.records);
    out.count("rotations", s.rotations);
    out.count("reads_checked", s.reads);
    out.count("entries_read", s.entries_read);
    out.count("rejected_calls", s.rejections);
    out.count("restarts", s.restarts);
    out.count("restarts_at_the_end_of_the_history", s.final_restarts);
    out.count("syncs", s.syncs);
    out.count("journal_checks", s.journal_checks);
    out.count("files_compared_bytewise", s.files_compared);
    out.count("returned_segments_checked", s.segments_checked);
    out.count("adversarial_calls", s.adversarial);
    out.count("adversarial_spec_store_disagree", s.adversarial_diverged);
    out.count("writes_that_hit_an_injected_chunk_creation_failure", s.io_faults_hit);
    for (k, n) in &s.kinds {
        out.count(&format!("op:{}", k), *n);
    }
    for (k, n) in &s.reject_kinds {
        out.count(&format!("reject:{}", k), *n);
    }
}

/// C11: chunk file names. `Config::chunk_path` + `RaftLog::load_chunk_ids` must round-trip every offset,
/// and agree with the independent name codec. Boundary values plus random u64 (sampled, not exhaustive).
fn check_file_names(ctx: &mut Ctx, r: &mut Rng) {
    use raft_log::{ChunkId, Config, RaftLog};
    let dir = util::fresh_dir("names");
    let cfg = Config::new(&dir);
    let mut xs: Vec<u64> = vec![0, 1, 9, 10, 99, 100, 999, 1000, 1001, u32::MAX as u64 - 1, u32::MAX as u64, u32::MAX as u64 + 1, 1 << 63, (1 << 63) - 1, u64::MAX - 1, u64::MAX];
    let mut p = 1u64;
    for _ in 0..19 {
        p = p.saturating_mul(10);
        xs.push(p - 1);
        xs.push(p);
        xs.push(p.saturating_add(1));
    }
    let n_random = if ctx.tier == Tier::Quick { 600 } else { 20_000 };
    for _ in 0..n_random {
        let bits = r.range(1, 64);
        xs.push(r.next() >> (64 - bits));
    }
    xs.sort();
    xs.dedup();
    let fail = |ctx: &mut Ctx, sig: &str, text: String, x: u64| {
        ctx.out.viol(Viol { prop: "C11".into(), sig: format!("C11:{}", sig), text, replay: json!({"kind": "filename", "offset": x.to_string()}) });
    };
    for chunk in xs.chunks(500) {
        for x in chunk {
            let path = cfg.chunk_path(ChunkId(*x));
            let want = format!("{}/{}", dir, refcodec::chunk_file_name(*x));
            if path != want {
                fail(ctx, "file_name_differs_from_reference", format!("offset {}: crate names the chunk {:?}, reference {:?}", x, path, want), *x);
            }
            let _ = std::fs::write(&path, b"");
        }
        match store::guarded(|| RaftLog::<store::V>::load_chunk_ids(&cfg)) {
            Ok(Ok(ids)) => {
                let got: Vec<u64> = ids.iter().map(|c| c.0).collect();
                if got != chunk {
                    let bad = chunk.iter().find(|x| !got.contains(x)).copied().unwrap_or(0);
                    fail(ctx, "file_name_round_trip", format!("{} names written, load_chunk_ids returned {} ids; e.g. offset {} is lost or reordered", chunk.len(), got.len(), bad), bad);
                }
            }
            Ok(Err(e)) => fail(ctx, "load_chunk_ids_error", e.to_string(), chunk[0]),
            Err(p) => fail(ctx, "load_chunk_ids_panic", p, chunk[0]),
        }
        for x in chunk {
            let _ = std::fs::remove_file(cfg.chunk_path(ChunkId(*x)));
        }
        ctx.out.count("file_names_round_tripped", chunk.len() as u64);
    }
    util::remove_dir(&dir);
}

pub fn run_shard(ctx: &mut Ctx) {
    let plan = plan_for(&ctx.prop);
    let mut r = Rng::new(ctx.shard_seed());
    let n_quick = plan.quick_histories;
    let mut h = 0u64;
    if ctx.prop == "C11" {
        check_file_names(ctx, &mut r);
    }
    if ctx.prop == "C16" {
        ctx.begin_phase(0.1);
        let n = if ctx.tier == Tier::Quick { 6 } else { 400 };
        for _ in 0..n {
            if !ctx.time_left() {
                break;
            }
            if let Some(vi) = c16_concurrent(r.next()) {
                ctx.out.viol(vi);
            }
            ctx.out.count("concurrent_rounds(4_readers+drainer)", 1);
        }
        ctx.end_phase();
    }
    if ctx.prop == "C16" {
        // walks in which update_state is an ordinary step (no reference model, panics only)
        ctx.begin_phase(0.3);
        let n = if ctx.tier == Tier::Quick { 150 } else { 20_000 };
        for _ in 0..n {
            if !ctx.time_left() {
                break;
            }
            let (ws, v) = crate::props::c16walk::walk(r.next());
            ctx.out.count("walk:walks", 1);
            ctx.out.count("walk:calls", ws.calls);
            ctx.out.count("walk:update_state_calls", ws.update_states);
            ctx.out.count("walk:appends_of_an_id_appended_before", ws.reappended_resident_ids);
            ctx.out.count("walk:restarts", ws.restarts);
            ctx.out.count("walk:restarts_refused_with_an_error", ws.restarts_refused);
            for (k, n) in &ws.kinds {
                ctx.out.count(&format!("walk:call:{}", k), *n);
            }
            if let Some(v) = v {
                ctx.out.viol(v);
            }
        }
        ctx.end_phase();
    }
    if ctx.prop == "C02" {
        // restarts inside walks in which update_state is an ordinary step
        ctx.begin_phase(0.15);
        let n = if ctx.tier == Tier::Quick { 120 } else { 10_000 };
        for _ in 0..n {
            if !ctx.time_left() {
                break;
            }
            let (ws, _, _, c2) = crate::props::c16walk::walk_legal(r.next());
            ctx.out.count("walk:walks", 1);
            ctx.out.count("walk:restarts_compared", ws.restarts);
            ctx.out.count("walk:update_state_calls", ws.update_states);
            if let Some(v) = c2 {
                ctx.out.viol(v);
            }
        }
        ctx.end_phase();
    }
    if ctx.prop == "C01" {
        // read-back of every appended entry along walks in which update_state is an ordinary step (an id that is
        // still resident is appended again with another payload)
        ctx.begin_phase(0.15);
        let n = if ctx.tier == Tier::Quick { 120 } else { 10_000 };
        for k in 0..n {
            if !ctx.time_left() {
                break;
            }
            let (ws, _, _, _) = if k % 2 == 0 { crate::props::c16walk::walk_legal(r.next()) } else { crate::props::c16walk::walk3(r.next()) };
            ctx.out.count("walk:walks", 1);
            ctx.out.count("walk:appended_entries_read_back", ws.read_backs);
            ctx.out.count("walk:appends_of_an_id_appended_before", ws.reappended_resident_ids);
            if let Some(v) = ws.read_back_wrong {
                ctx.out.viol(v);
            }
        }
        ctx.end_phase();
    }
    if ctx.prop == "C06" {
        // refused calls along walks in which update_state is an ordinary step
        ctx.begin_phase(0.2);
        let n = if ctx.tier == Tier::Quick { 150 } else { 10_000 };
        for k in 0..n {
            if !ctx.time_left() {
                break;
            }
            let (ws, _, _, _) = if k % 2 == 0 { crate::props::c16walk::walk_legal(r.next()) } else { crate::props::c16walk::walk3(r.next()) };
            ctx.out.count("walk:walks", 1);
            ctx.out.count("walk:refused_calls_compared", ws.refused_calls_compared);
            if let Some(v) = ws.trace_left {
                ctx.out.viol(v);
            }
        }
        ctx.end_phase();
    }
    if ctx.prop == "C06" || ctx.prop == "C16" {
        // a partially ordered vote type (the tuple votes of the main harness types are totally ordered)
        ctx.begin_phase(0.2);
        let n = if ctx.tier == Tier::Quick { 60 } else { 3000 };
        crate::props::pvote::run(ctx, n, &mut r);
        ctx.end_phase();
    }
    if ctx.prop == "C11" || ctx.prop == "C02" {
        let n = if ctx.tier == Tier::Quick { 3 } else { 40 };
        let dl = ctx.begin_phase(0.3);
        crate::props::maxbatch::run(&mut ctx.out, n, &mut r, &|| util::now_s() < dl);
        ctx.end_phase();
    }
    loop {
        if ctx.tier == Tier::Quick && h >= n_quick {
            break;
        }
        if !ctx.time_left() {
            break;
        }
        let seed = r.next();
        let case = gen_case(seed, h + (ctx.shard as u64) * 1_000_000, &plan.params, &ctx.prop);
        let (stats, v, side) = run_case(&case, plan.check_each, plan.final_restart);
        for sv in side {
            ctx.out.viol(sv);
        }
        ctx.out.evaluations += 1;
        add_stats(&mut ctx.out, &stats);
        for t in &case.tags {
            ctx.out.count(&format!("histories_with:{}", t), 1);
        }
        let nontrivial = match ctx.prop.as_str() {
            "C01" | "C11" => stats.rotations >= 1 && stats.records >= 5,
            "C02" => stats.restarts >= 1 && stats.records >= 5,
            "C06" => stats.rejections >= 1,
            "C16" => stats.adversarial >= 3,
            _ => true,
        };
        if nontrivial && v.is_none() {
            ctx.out.distinct.insert(util::hash_str(&case.brief().to_string()));
            ctx.out.tag("config(max_records,max_size)", &format!("{:?},{:?}", case.cfg.max_records, case.cfg.max_size));
        }
        if h == 0 {
            ctx.out.sample(case.brief());
        }
        if let Some(v) = v {
            ctx.out.viol(v);
        }
        h += 1;
    }
}

/// C16 under concurrency: reader threads (range reads, snapshot iteration, stat) run against a store whose cache
/// holds evictable entries while another thread drains the cache and the caller keeps appending and flushing.
/// Every call is wrapped in catch_unwind; a panic in any thread is a violation.
pub fn c16_concurrent(seed: u64) -> Option<Viol> {
    let mut r = Rng::new(seed);
    let dir = util::fresh_dir("c16c");
    let cfg = CfgSpec { max_records: Some(*r.pick(&[3usize, 5, 8])), read_buf: Some(64), ..Default::default() };
    let mut st = match Store::open(&dir, &cfg, 1) {
        Ok(s) => s,
        Err(_) => {
            util::remove_dir(&dir);
            return None;
        }
    };
    let mut next = 0u64;
    for _ in 0..30 {
        // (payloads of one fixed size, so that every stat() snapshot can be checked for internal consistency)
        let _ = st.write(&Op::Append(vec![((1, next), format!("c16c-{:04}", next))]));
        next += 1;
    }
    let _ = st.sync();
    let panic_msg: std::sync::Mutex<Option<(String, String)>> = std::sync::Mutex::new(None);
    let torn_msg: std::sync::Mutex<Option<String>> = std::sync::Mutex::new(None);
    let stop = std::sync::atomic::AtomicBool::new(false);
    {
        let rl = st.rl();
        let (pm, stop, torn) = (&panic_msg, &stop, &torn_msg);
        std::thread::scope(|sc| {
            for t in 0..4u32 {
                sc.spawn(move || {
                    let mut n = 0;
                    while !stop.load(std::sync::atomic::Ordering::Relaxed) && n < 3000 {
                        n += 1;
                        let res = match (t + n) % 3 {
                            0 => store::guarded(|| rl.read(0, u64::MAX).count()).map(|_| ()).map_err(|p| ("read", p)),
                            1 => store::guarded(|| {
                                let mut d = rl.dump_data();
                                d.iter().count()
                            })
                            .map(|_| ())
                            .map_err(|p| ("dump_data_iter", p)),
                            _ => store::guarded(|| {
                                let s = rl.stat();
                                let _ = format!("{}", s);
                                // every payload is 9 bytes long: count and size of ONE snapshot must agree, whatever
                                // the drainer thread is doing meanwhile
                                if s.payload_cache_size != 9 * s.payload_cache_item_count {
                                    *torn.lock().unwrap() = Some(format!("one stat() snapshot reports {} cached items and {} bytes although every payload has 9 bytes (another thread was draining the cache)", s.payload_cache_item_count, s.payload_cache_size));
                                }
                            })
                            .map_err(|p| ("stat", p)),
                        };
                        if let Err((what, p)) = res {
                            *pm.lock().unwrap() = Some((what.to_string(), p));
                            break;
                        }
                    }
                });
            }
            sc.spawn(move || {
                for _ in 0..400 {
                    if let Err(p) = store::guarded(|| rl.drain_cache_evictable()) {
                        *pm.lock().unwrap() = Some(("drain_cache_evictable".to_string(), p));
                        break;
                    }
                    for _ in 0..50 {
                        std::hint::spin_loop();
                    }
                }
            });
            // let them run against each other for a moment
            for _ in 0..2000 {
                std::thread::yield_now();
                if pm.lock().unwrap().is_some() {
                    break;
                }
            }
            stop.store(true, std::sync::atomic::Ordering::Relaxed);
        });
    }
    st.close();
    util::remove_dir(&dir);
    if let Some(t) = torn_msg.lock().unwrap().take() {
        return Some(Viol { prop: "C15".into(), sig: "C15:stat_snapshot_torn".into(), text: t, replay: json!({"kind": "c16c", "seed": seed.to_string()}) });
    }
    let got = panic_msg.lock().unwrap().take();
    got.map(|(what, p)| Viol {
        prop: "C16".into(),
        sig: format!("C16:panic:{}_concurrent:{}", what, p.rsplit(" @ ").next().unwrap_or("?")),
        text: format!("{} panicked while other threads were reading / draining the cache: {}", what, p),
        replay: json!({"kind": "c16c", "seed": seed.to_string()}),
    })
}

/// C15 under concurrency: stat() is called in a tight loop on two threads while a third thread drains the cache; every
/// payload has the same size, so each single snapshot can be checked: byte size = 9 x item count. One transition
/// (all evictable entries leave at once) per cycle, 25 cycles per round. Returns (snapshots checked, violation).
pub fn torn_stat_round(seed: u64) -> (u64, Option<Viol>) {
    let mut r = Rng::new(seed);
    let dir = util::fresh_dir("c15t");
    let cfg = CfgSpec { max_records: Some(*r.pick(&[4usize, 7, 16])), read_buf: Some(64), ..Default::default() };
    let mut st = match Store::open(&dir, &cfg, 1) {
        Ok(s) => s,
        Err(_) => {
            util::remove_dir(&dir);
            return (0, None);
        }
    };
    let mut next = 0u64;
    let checked = std::sync::atomic::AtomicU64::new(0);
    let torn: std::sync::Mutex<Option<String>> = std::sync::Mutex::new(None);
    for _cycle in 0..25 {
        for _ in 0..r.range(8, 40) {
            let _ = st.write(&Op::Append(vec![((1, next), format!("c15t-{:04}", next % 10_000))]));
            next += 1;
        }
        let _ = st.sync();
        let go = std::sync::atomic::AtomicBool::new(false);
        let done = std::sync::atomic::AtomicBool::new(false);
        {
            let rl = st.rl();
            let (checked, torn, go, done) = (&checked, &torn, &go, &done);
            std::thread::scope(|sc| {
                for _ in 0..2 {
                    sc.spawn(move || {
                        while !go.load(std::sync::atomic::Ordering::Acquire) {
                            std::hint::spin_loop();
                        }
                        let mut after_done = 0;
                        loop {
                            let s = rl.stat();
                            checked.fetch_add(1, std::sync::atomic::Ordering::Relaxed);
                            if s.payload_cache_size != 9 * s.payload_cache_item_count {
                                *torn.lock().unwrap() = Some(format!("one stat() snapshot reports {} cached items and {} bytes although every payload has 9 bytes; another thread was draining the cache at that moment", s.payload_cache_item_count, s.payload_cache_size));
                                return;
                            }
                            if done.load(std::sync::atomic::Ordering::Acquire) {
                                after_done += 1;
                                if after_done > 3 {
                                    return;
                                }
                            }
                        }
                    });
                }
                sc.spawn(move || {
                    go.store(true, std::sync::atomic::Ordering::Release);
                    for _ in 0..200 {
                        std::hint::spin_loop();
                    }
                    rl.drain_cache_evictable();
                    done.store(true, std::sync::atomic::Ordering::Release);
                });
            });
        }
        if torn.lock().unwrap().is_some() {
            break;
        }
    }
    st.close();
    util::remove_dir(&dir);
    let n = checked.load(std::sync::atomic::Ordering::Relaxed);
    let v = torn.lock().unwrap().take().map(|t| Viol { prop: "C15".into(), sig: "C15:stat_snapshot_torn".into(), text: t, replay: json!({"kind": "c15t", "seed": seed.to_string()}) });
    (n, v)
}

pub fn replay_file_name(v: &Value) -> Option<Viol> {
    use raft_log::{ChunkId, Config, RaftLog};
    let x: u64 = v["offset"].as_str()?.parse().ok()?;
    let dir = util::fresh_dir("names");
    let cfg = Config::new(&dir);
    let path = cfg.chunk_path(ChunkId(x));
    let want = format!("{}/{}", dir, refcodec::chunk_file_name(x));
    let _ = std::fs::write(&path, b"");
    let ids = RaftLog::<store::V>::load_chunk_ids(&cfg).ok()?;
    util::remove_dir(&dir);
    if path != want || ids.iter().map(|c| c.0).collect::<Vec<_>>() != vec![x] {
        return Some(Viol { prop: "C11".into(), sig: "C11:file_name_round_trip".into(), text: format!("offset {}: path {:?} (reference {:?}), loaded ids {:?}", x, path, want, ids), replay: v.clone() });
    }
    None
}

pub fn replay(v: &Value) -> Option<Viol> {
    let case = HistCase::from_json(&v["case"])?;
    let plan = plan_for(&case.plan);
    let (_s, viol, side) = run_case(&case, plan.check_each, plan.final_restart);
    viol.or(side.into_iter().next())
}
