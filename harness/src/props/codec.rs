//! C12: record codec round-trip and totality — differential against the reference codec.

use raft_log::WALRecord;
use raft_log::codeq::{Decode, Encode};
#[allow(unused_imports)]
use std::io::Write as _;
use serde_json::json;

use crate::frame::{Ctx, Tier, Viol};
use crate::model::{MState, Rec};
use crate::refcodec::{self, DecErr};
use crate::store::{self, V, guarded};
use crate::util::{self, Rng};

const INTS: &[u64] = &[0, 1, 255, 256, 65535, 65536, (1 << 32) - 1, 1 << 32, 1 << 63, u64::MAX - 1, u64::MAX];

fn int(r: &mut Rng) -> u64 {
    if r.chance(3, 4) { *r.pick(INTS) } else { r.next() }
}
fn id(r: &mut Rng) -> (u64, u64) {
    (int(r), int(r))
}
fn oid(r: &mut Rng) -> Option<(u64, u64)> {
    if r.chance(1, 3) { None } else { Some(id(r)) }
}
fn text(r: &mut Rng, big: bool) -> String {
    let n = match r.below(10) {
        0 => 0,
        1..=5 => r.range(1, 24) as usize,
        6 | 7 => r.range(100, 400) as usize,
        8 => r.range(1000, 5000) as usize,
        _ => {
            if big {
                70_000
            } else {
                300
            }
        }
    };
    let mut s = String::with_capacity(n + 4);
    while s.len() < n {
        match r.below(12) {
            0 => s.push('é'),
            1 => s.push('\u{1F600}'),
            2 => s.push('\0'),
            _ => s.push((b' ' + r.below(94) as u8) as char),
        }
    }
    while s.len() > n && !s.is_empty() {
        s.pop();
    }
    s
}

pub fn gen_rec(r: &mut Rng, big: bool) -> Rec {
    match r.below(6) {
        0 => Rec::Vote(id(r)),
        1 => Rec::Append(id(r), text(r, big)),
        2 => Rec::Commit(id(r)),
        3 => Rec::TruncateAfter(oid(r)),
        4 => Rec::Purge(id(r)),
        _ => Rec::State(MState { vote: oid(r), last: oid(r), committed: oid(r), purged: oid(r), user_data: if r.chance(1, 3) { None } else { Some(text(r, false)) } }),
    }
}

#[derive(Debug, PartialEq)]
enum Dec {
    Ok(Rec, usize),
    Eof,
    Invalid,
    OtherErr(String),
    Panic(String),
}

fn crate_decode(b: &[u8]) -> Dec {
    let mut cur: &[u8] = b;
    let r = guarded(|| WALRecord::<V>::decode(&mut cur));
    match r {
        Ok(Ok(rec)) => Dec::Ok(store::wal_to_rec(&rec), b.len() - cur.len()),
        Ok(Err(e)) => match e.kind() {
            std::io::ErrorKind::UnexpectedEof => Dec::Eof,
            std::io::ErrorKind::InvalidData => Dec::Invalid,
            k => Dec::OtherErr(format!("{:?}: {}", k, e)),
        },
        Err(p) => Dec::Panic(p),
    }
}

fn ref_decode(b: &[u8]) -> Dec {
    match refcodec::decode(b) {
        Ok((r, n)) => Dec::Ok(r, n),
        Err(DecErr::Eof) => Dec::Eof,
        Err(DecErr::Invalid(_)) => Dec::Invalid,
    }
}

fn v(sig: &str, text: String, input: &[u8]) -> Viol {
    let shown = if input.len() > 4096 { &input[..4096] } else { input };
    Viol { prop: "C12".into(), sig: format!("C12:{}", sig), text, replay: json!({"kind": "codec", "bytes_hex": util::hex(shown), "full_len": input.len()}) }
}

/// All oracles on one valid record.
pub fn check_roundtrip(rec: &Rec, r: &mut Rng) -> Result<u64, Viol> {
    // (the crate's state value can only be obtained by decoding a state body: that decode is part of what is judged)
    let w = match guarded(|| store::rec_to_wal(rec)) {
        Ok(w) => w,
        Err(p) => return Err(v(&format!("decode_panic:{}", p.rsplit(" @ ").next().unwrap_or("?")), format!("decoding the body of a valid {} record panicked: {}", rec.kind(), p), &refcodec::encode(rec))),
    };
    let (bytes, n) = match guarded(|| store::crate_encode(&w)) {
        Ok(x) => x,
        Err(p) => return Err(v("encode_panic", format!("encode panicked: {}", p), &[])),
    };
    if n != bytes.len() {
        return Err(v("encode_count", format!("encode reported {} bytes, produced {} ({})", n, bytes.len(), rec.kind()), &bytes));
    }
    let rb = refcodec::encode(rec);
    if rb != bytes {
        let at = rb.iter().zip(bytes.iter()).position(|(a, b)| a != b).unwrap_or(rb.len().min(bytes.len()));
        return Err(v("encoding_differs_from_reference", format!("{} record: crate bytes differ from the reference encoding at byte {} (len {} vs {})", rec.kind(), at, bytes.len(), rb.len()), &bytes));
    }
    match crate_decode(&bytes) {
        Dec::Ok(r2, used) => {
            if &r2 != rec {
                return Err(v("roundtrip_value", format!("decode(encode(r)) != r for a {} record", rec.kind()), &bytes));
            }
            if used != n {
                return Err(v("roundtrip_consumed", format!("decode consumed {} of {} bytes", used, n), &bytes));
            }
        }
        other => return Err(v("roundtrip_decode_failed", format!("decode of a valid {} record: {:?}", rec.kind(), short_dec(&other)), &bytes)),
    }
    // followed by trailing garbage: must consume exactly n
    let mut ext = bytes.clone();
    let extra = r.range(1, 40) as usize;
    for _ in 0..extra {
        ext.push(r.next() as u8);
    }
    match crate_decode(&ext) {
        Dec::Ok(r2, used) if used == n && &r2 == rec => {}
        other => return Err(v("trailing_bytes", format!("valid {} record followed by {} garbage bytes: {:?} (record length {})", rec.kind(), extra, short_dec(&other), n), &ext)),
    }
    Ok(2)
}

fn short_dec(d: &Dec) -> String {
    match d {
        Dec::Ok(r, n) => format!("Ok({}, used {})", r.kind(), n),
        x => format!("{:?}", x),
    }
}

/// Oracles on arbitrary bytes: total, and Ok only for a canonical encoding; agrees with the reference decoder.
pub fn check_arbitrary(b: &[u8]) -> Result<bool, Viol> {
    let c = crate_decode(b);
    let rf = ref_decode(b);
    match &c {
        Dec::Panic(p) => return Err(v(&format!("decode_panic:{}", p.rsplit(" @ ").next().unwrap_or("?")), format!("decode panicked: {}", p), b)),
        Dec::OtherErr(e) => return Err(v("decode_unexpected_error_kind", format!("decode returned an error that is neither UnexpectedEof nor InvalidData: {}", e), b)),
        Dec::Ok(rec, used) => {
            if *used > b.len() {
                return Err(v("read_past_input", format!("consumed {} of {}", used, b.len()), b));
            }
            let re = refcodec::encode(rec);
            let (cb, _) = store::crate_encode(&store::rec_to_wal(rec));
            if re != b[..*used] || cb != b[..*used] {
                return Err(v("accepted_non_canonical", format!("decode accepted {} bytes as a {} record whose re-encoding differs", used, rec.kind()), b));
            }
        }
        _ => {}
    }
    if c != rf {
        return Err(v("decoders_disagree", format!("crate: {} reference: {}", short_dec(&c), short_dec(&rf)), b));
    }
    Ok(matches!(c, Dec::Ok(..)))
}

/// A writer that accepts `limit` bytes and then fails.
struct FailingWriter {
    limit: usize,
    taken: usize,
}

impl std::io::Write for FailingWriter {
    fn write(&mut self, b: &[u8]) -> std::io::Result<usize> {
        if self.taken >= self.limit {
            return Err(std::io::Error::other("writer full"));
        }
        let n = b.len().min(self.limit - self.taken);
        self.taken += n;
        Ok(n)
    }
    fn flush(&mut self) -> std::io::Result<()> {
        Ok(())
    }
}

/// An encode that fails half-way (the writer gives up) must not influence any later encode: the next record
/// encoded on this thread must come out byte-identical to the reference encoding, with the right count.
fn check_encode_after_failed_encode(rec: &Rec, r: &mut Rng) -> Result<u64, Viol> {
    let w = match guarded(|| store::rec_to_wal(rec)) {
        Ok(w) => w,
        Err(_) => return Ok(0),
    };
    let full = refcodec::encode(rec);
    let limit = r.below(full.len() as u64) as usize;
    let first = guarded(|| w.encode(FailingWriter { limit, taken: 0 }));
    match first {
        Err(p) => return Err(v("encode_panic", format!("encode into a writer that fails after {} bytes panicked: {}", limit, p), &full)),
        Ok(Ok(n)) => return Err(v("encode_ok_on_failing_writer", format!("encode reported Ok({}) although the writer accepted only {} of {} bytes", n, limit, full.len()), &full)),
        Ok(Err(_)) => {}
    }
    let (bytes, n) = match guarded(|| store::crate_encode(&w)) {
        Ok(x) => x,
        Err(p) => return Err(v("encode_panic", format!("encode after a failed encode panicked: {}", p), &full)),
    };
    if bytes != full || n != full.len() {
        return Err(v("encode_after_failed_encode_differs", format!("after an encode that failed at byte {} the next encode of a {} record produced {} bytes (reported {}), the reference encoding has {}", limit, rec.kind(), bytes.len(), n, full.len()), &bytes));
    }
    Ok(1)
}

/// Records whose checksum is a chosen value (0, 1, 0xFFFFFFFF, ...): the low four bytes of a Commit record's index
/// are the last bytes under the checksum and are solved for. Such a record is as valid as any other.
fn check_forged_checksums(r: &mut Rng) -> Result<u64, Viol> {
    let mut n = 0;
    for target in [0u32, 1, 0xFFFF_FFFF, 0x8000_0000, r.next() as u32] {
        let term = r.next();
        let hi = (r.next() >> 32) << 32;
        let mut body = vec![];
        body.extend_from_slice(&2u32.to_be_bytes());
        body.extend_from_slice(&term.to_be_bytes());
        body.extend_from_slice(&hi.to_be_bytes()[..4]);
        let low = refcodec::crc32_forge_suffix(&body, target);
        body.extend_from_slice(&low);
        if refcodec::crc32(&body) != target {
            continue; // the solver did not reach the target: no claim
        }
        let index = u64::from_be_bytes([body[12], body[13], body[14], body[15], low[0], low[1], low[2], low[3]]);
        let rec = Rec::Commit((term, index));
        let bytes = refcodec::encode(&rec);
        n += 1;
        match crate_decode(&bytes) {
            Dec::Ok(r2, used) if r2 == rec && used == bytes.len() => {}
            other => return Err(v("valid_record_rejected:checksum_value", format!("a valid Commit record whose CRC-32 is {:#x} is not decoded back: {:?}", target, short_dec(&other)), &bytes)),
        }
    }
    Ok(n)
}

pub fn run_shard(ctx: &mut Ctx) {
    let mut r = Rng::new(ctx.shard_seed());
    match check_forged_checksums(&mut r) {
        Ok(n) => ctx.out.count("records_with_a_forged_checksum_value(0,1,0xFFFFFFFF,..)", n),
        Err(vi) => ctx.out.viol(vi),
    }
    let quick_recs = 5000u64;
    let mut i = 0u64;
    let mut big: Vec<Vec<u8>> = vec![];
    // deterministic part: every kind x option combination x boundary integers (shard 0 only)
    if ctx.shard == 0 {
        let mut all = vec![];
        for a in INTS {
            for b in [0u64, u64::MAX, 1 << 32] {
                all.push(Rec::Vote((*a, b)));
                all.push(Rec::Commit((b, *a)));
                all.push(Rec::Purge((*a, b)));
                all.push(Rec::TruncateAfter(Some((*a, b))));
                all.push(Rec::Append((*a, b), String::new()));
            }
        }
        all.push(Rec::TruncateAfter(None));
        for mask in 0..32u32 {
            let o = |bit: u32, x: u64| if mask & (1 << bit) != 0 { Some((x, u64::MAX - x)) } else { None };
            all.push(Rec::State(MState { vote: o(0, 1), last: o(1, 2), committed: o(2, 3), purged: o(3, 4), user_data: if mask & 16 != 0 { Some("ud".into()) } else { None } }));
        }
        for rec in &all {
            ctx.out.evaluations += 1;
            match check_encode_after_failed_encode(rec, &mut r) {
                Ok(n) => ctx.out.count("encodes_after_a_failed_encode", n),
                Err(vi) => ctx.out.viol(vi),
            }
            match check_roundtrip(rec, &mut r) {
                Ok(n) => ctx.out.count("decodes", n),
                Err(vi) => ctx.out.viol(vi),
            }
            ctx.out.count(&format!("roundtrip:{}", rec.kind()), 1);
            ctx.out.distinct.insert(util::fnv(&refcodec::encode(rec)));
        }
        ctx.out.count("enumerated_kind_x_option_x_boundary_records", all.len() as u64);
    }
    loop {
        if ctx.tier == Tier::Quick && i >= quick_recs {
            break;
        }
        if !ctx.time_left() {
            break;
        }
        i += 1;
        let rec = gen_rec(&mut r, ctx.tier == Tier::Thorough || i % 50 == 0);
        ctx.out.evaluations += 1;
        ctx.out.count(&format!("roundtrip:{}", rec.kind()), 1);
        if i % 8 == 0 {
            match check_encode_after_failed_encode(&rec, &mut r) {
                Ok(n) => ctx.out.count("encodes_after_a_failed_encode", n),
                Err(vi) => ctx.out.viol(vi),
            }
        }
        match check_roundtrip(&rec, &mut r) {
            Ok(n) => ctx.out.count("decodes", n),
            Err(vi) => {
                ctx.out.viol(vi);
                continue;
            }
        }
        let good = refcodec::encode(&rec);
        ctx.out.distinct.insert(util::fnv(&good));
        if i == 1 {
            ctx.out.sample(json!({"record": rec.to_json(), "encoded_hex": util::hex(&good[..good.len().min(96)]), "len": good.len()}));
        }
        let fields = refcodec::decode_full(&good).map(|d| d.fields).unwrap_or_default();
        // mutations of this record
        let mut muts: Vec<(String, Vec<u8>)> = vec![];
        if good.len() <= 120 {
            // every byte position: a bit flip, 0x00, 0xff and a random value
            for p in 0..good.len() {
                for val in [good[p] ^ (1 << r.below(8)), 0x00, 0xff, r.next() as u8] {
                    if val != good[p] {
                        let mut b = good.clone();
                        b[p] = val;
                        muts.push((format!("subst:{}", field_at(&fields, p)), b));
                    }
                }
            }
            // every truncation
            for n in 0..good.len() {
                muts.push(("truncate".into(), good[..n].to_vec()));
            }
        } else {
            for _ in 0..40 {
                let p = r.below(good.len() as u64) as usize;
                let mut b = good.clone();
                b[p] ^= 1 << r.below(8);
                muts.push((format!("subst:{}", field_at(&fields, p)), b));
            }
            for _ in 0..10 {
                muts.push(("truncate".into(), good[..r.below(good.len() as u64) as usize].to_vec()));
            }
        }
        // all 255 substitutions at every position of short records (thorough, and 1 in 20 in quick)
        if good.len() <= 60 && (ctx.tier == Tier::Thorough || i % 20 == 0) {
            for p in 0..good.len() {
                for val in 0..=255u8 {
                    if val != good[p] {
                        let mut b = good.clone();
                        b[p] = val;
                        muts.push((format!("subst_all:{}", field_at(&fields, p)), b));
                    }
                }
            }
            ctx.out.count("records_with_all_255_substitutions_at_every_byte", 1);
        }
        // multi-byte edits, inserted / deleted bytes
        for _ in 0..6 {
            let mut b = good.clone();
            for _ in 0..r.range(2, 5) {
                let p = r.below(b.len() as u64) as usize;
                b[p] = r.next() as u8;
            }
            muts.push(("multi_edit".into(), b));
            let mut b = good.clone();
            let p = r.below(b.len() as u64) as usize;
            b.insert(p, r.next() as u8);
            muts.push(("insert".into(), b));
            let mut b = good.clone();
            b.remove(r.below(b.len() as u64) as usize);
            muts.push(("delete".into(), b));
        }
        // length prefix set to large values (up to 4 GiB - 1)
        for (s, e, f) in &fields {
            if *f == refcodec::Field::LenPrefix {
                for big in [0x0001_0000u32, 0x00ff_ffff, 0x7fff_ffff, 0xffff_ffff, (e - s) as u32 + 1_000] {
                    let mut b = good.clone();
                    b[*s..*e].copy_from_slice(&big.to_be_bytes());
                    muts.push(("huge_len_prefix".into(), b));
                }
            }
        }
        // random byte strings, some starting with a valid tag
        for _ in 0..8 {
            let n = r.below(80) as usize;
            let mut b: Vec<u8> = (0..n).map(|_| r.next() as u8).collect();
            if n >= 4 && r.chance(2, 3) {
                b[0] = 0;
                b[1] = 0;
                b[2] = 0;
                b[3] = r.below(7) as u8;
            }
            muts.push(("random".into(), b));
        }
        for (kind, b) in &muts {
            // An input that declares a string of more than 16 MiB makes the decoder allocate that much before it
            // notices the input is short. Whether such an allocation succeeds depends on the memory the machine has
            // free at that moment (an allocation failure aborts the process, it cannot be caught), so these inputs
            // are decoded in a sacrificial child process.
            if refcodec::declared_alloc(b) > (16 << 20) {
                big.push(b.clone());
                ctx.out.count(&format!("mutation:{}(declares_more_than_16MiB)", kind), 1);
                continue;
            }
            ctx.out.evaluations += 1;
            ctx.out.count("decodes", 1);
            ctx.out.count(&format!("mutation:{}", kind), 1);
            match check_arbitrary(b) {
                Ok(true) => ctx.out.count("mutants_accepted_as_canonical_records", 1),
                Ok(false) => {}
                Err(vi) => ctx.out.viol(vi),
            }
        }
    }
    // the inputs with giant declared lengths: a sample of them, in a child process
    if !big.is_empty() {
        let n = big.len();
        let take = if ctx.tier == Tier::Quick { 40 } else { 400 };
        let step = (n / take).max(1);
        let sample: Vec<&Vec<u8>> = big.iter().step_by(step).take(take).collect();
        let path = format!("{}/big-{}.txt", util::scratch_root(), ctx.shard);
        let _ = std::fs::create_dir_all(util::scratch_root());
        let body: String = sample.iter().map(|b| util::hex(b)).collect::<Vec<_>>().join("\n");
        if std::fs::write(&path, body).is_ok() {
            let exe = std::env::current_exe().ok();
            let out = exe.and_then(|e| std::process::Command::new(e).args(["c12-big", &path]).output().ok());
            match out {
                Some(o) if o.status.success() => {
                    let so = String::from_utf8_lossy(&o.stdout);
                    for l in so.lines() {
                        if let Some(rest) = l.strip_prefix("BIG-VIOL ") {
                            let mut it = rest.splitn(3, ' ');
                            let sig = it.next().unwrap_or("C12:big").to_string();
                            let hexs = it.next().unwrap_or("");
                            let text = it.next().unwrap_or("").to_string();
                            ctx.out.viol(Viol { prop: "C12".into(), sig, text, replay: json!({"kind": "codec", "bytes_hex": hexs, "full_len": hexs.len() / 2}) });
                        } else if let Some(k) = l.strip_prefix("BIG-OK ") {
                            let k: u64 = k.trim().parse().unwrap_or(0);
                            ctx.out.count("decodes", k);
                            ctx.out.evaluations += k;
                            ctx.out.count("decodes_of_inputs_declaring_16MiB_to_4GiB(child_process)", k);
                        }
                    }
                }
                Some(o) => {
                    // killed by the allocator / OOM: environment, not a verdict
                    ctx.out.count("giant_allocation_batches_not_observed(child_died)", 1);
                    let _ = o;
                }
                None => ctx.out.count("giant_allocation_batches_not_observed(child_not_started)", 1),
            }
            let _ = std::fs::remove_file(&path);
        }
    }
}

/// Child: decode inputs that declare giant lengths. One line of hex per input.
pub fn big_child(args: &[String]) -> i32 {
    let Some(p) = args.get(2) else { return 2 };
    let Ok(s) = std::fs::read_to_string(p) else { return 2 };
    let mut ok = 0u64;
    for l in s.lines() {
        let b = util::unhex(l.trim());
        match check_arbitrary(&b) {
            Ok(_) => ok += 1,
            Err(v) => println!("BIG-VIOL {} {} {}", v.sig, util::hex(&b[..b.len().min(200)]), v.text.replace('\n', " ")),
        }
    }
    println!("BIG-OK {}", ok);
    0
}

fn field_at(fields: &[(usize, usize, refcodec::Field)], p: usize) -> &'static str {
    for (s, e, f) in fields {
        if p >= *s && p < *e {
            return f.name();
        }
    }
    "?"
}

pub fn replay(vj: &serde_json::Value) -> Option<Viol> {
    let b = util::unhex(vj["bytes_hex"].as_str()?);
    if b.is_empty() {
        return None;
    }
    match check_arbitrary(&b) {
        Err(vi) => Some(vi),
        Ok(_) => {
            // maybe it was a round-trip failure: try decoding with the reference and re-checking
            if let Ok((rec, _)) = refcodec::decode(&b) {
                let mut r = Rng::new(1);
                if let Err(vi) = check_roundtrip(&rec, &mut r) {
                    return Some(vi);
                }
            }
            None
        }
    }
}
