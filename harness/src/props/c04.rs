//! C04: flush acknowledgement soundness — offline checker over the recorded trace
//! and shadow file system, for fault-free and fault-injected scheduled histories.

use serde_json::json;

use crate::frame::{Ctx, Tier, Viol};
use crate::genr::GenParams;
use crate::props::sched::{self, FaultSpec, NoObserver, RunErr, RunRec, SchedCase};
use crate::props::seq;
use crate::refcodec;
use crate::shadow::Shadow;
use crate::trace::{self, Ek, Role, Sk};
use crate::util::{self, Rng};

fn v(case: &SchedCase, sig: &str, text: String) -> Viol {
    Viol { prop: "C04".into(), sig: format!("C04:{}", sig), text, replay: json!({"kind": "c04", "case": case.to_json()}) }
}

#[derive(Default)]
pub struct C04Stats {
    pub acks_ok: u64,
    pub acks_err: u64,
    pub acks_with_unsynced_elsewhere: u64,
    pub acks_across_rotation: u64,
    pub batched_acks: u64,
    pub files_checked: u64,
}

/// Evaluate the acknowledgement rules on a finished run.
pub fn check(case: &SchedCase, rr: &RunRec, stats: &mut C04Stats) -> Vec<Viol> {
    let mut out = vec![];
    let t = &rr.trace;
    let mut sh = Shadow::new();
    let mut last_acked_flush: Option<u64> = None;
    let mut prev_was_ack = false;
    let any_fault = rr.faults_fired > 0;
    for (i, e) in t.evs.iter().enumerate() {
        sh.apply(t, &e.k);
        match &e.k {
            Ek::Ack { flush, ok } => {
                if prev_was_ack {
                    stats.batched_acks += 1;
                }
                prev_was_ack = true;
                // order
                if let Some(p) = last_acked_flush {
                    if *flush < p {
                        out.push(v(case, "ack_out_of_order", format!("event {}: callback of flush #{} fired after that of flush #{}", i, flush, p)));
                    }
                }
                last_acked_flush = Some(last_acked_flush.unwrap_or(0).max(*flush));
                let Some(fr) = rr.flushes.iter().find(|f| f.id == *flush) else { continue };
                if !*ok {
                    stats.acks_err += 1;
                    if !any_fault {
                        out.push(v(case, "ack_err_without_fault", format!("event {}: flush #{} reported an error although no I/O error was injected", i, flush)));
                    }
                    continue;
                }
                stats.acks_ok += 1;
                // every byte journalled before the flush call must be durable in its chunk file
                let g = fr.gend;
                let ids: Vec<u64> = sh.files.keys().copied().collect();
                let mut spans = 0;
                for (k, id) in ids.iter().enumerate() {
                    if *id >= g {
                        continue;
                    }
                    let next = ids.get(k + 1).copied().unwrap_or(u64::MAX);
                    let need = g.min(next) - id;
                    let f = &sh.files[id];
                    stats.files_checked += 1;
                    spans += 1;
                    if (f.durable.len() as u64) < need {
                        let written = f.written.len() as u64;
                        let what = if written < need { "never written" } else { "written but not successfully synced after the write" };
                        out.push(v(
                            case,
                            if written < need { "ack_ok_before_write" } else { "ack_ok_before_sync" },
                            format!(
                                "event {}: flush #{} (journal end {} at the call) acknowledged Ok, but chunk {} has only {} durable bytes of the {} it must hold ({}; written {}){}",
                                i,
                                flush,
                                g,
                                id,
                                f.durable.len(),
                                need,
                                what,
                                written,
                                if any_fault { " [I/O fault injected earlier]" } else { "" }
                            ),
                        ));
                    } else {
                        // the durable bytes must be whole records (what was journalled), not garbage
                        let p = refcodec::parse_file(&f.durable[..need as usize]);
                        if p.good_len as u64 != need {
                            out.push(v(case, "ack_ok_durable_not_records", format!("event {}: flush #{}: the {} durable bytes of chunk {} below the flush point are not a sequence of complete records (good prefix {})", i, flush, need, id, p.good_len)));
                        }
                    }
                }
                if spans > 1 {
                    stats.acks_across_rotation += 1;
                }
                if sh.files.values().any(|f| f.durable.len() < f.written.len()) {
                    stats.acks_with_unsynced_elsewhere += 1;
                }
            }
            Ek::OpBegin { .. } | Ek::OpEnd { .. } | Ek::FlushCall { .. } => {}
            _ => prev_was_ack = false,
        }
    }
    // at most once / exactly once
    for fr in &rr.flushes {
        let st = trace::ack_states(fr.id);
        let fired: Vec<_> = st.iter().filter(|s| !matches!(s, trace::AckState::Dropped)).collect();
        if fired.len() > 1 {
            out.push(v(case, "ack_twice", format!("callback of flush #{} invoked {} times", fr.id, fired.len())));
        }
        if !fr.cb && !st.is_empty() {
            out.push(v(case, "ack_without_callback", format!("flush #{} had no callback but {:?} was recorded", fr.id, st)));
        }
        if fr.cb && fr.call_ok && !any_fault && !rr.worker_dead && fired.is_empty() {
            out.push(v(case, "ack_missing", format!("flush #{} (step {}) has a callback, no I/O error occurred and the worker is idle, but the callback never fired ({:?})", fr.id, fr.step, st)));
        }
    }
    out
}

pub fn gen_faults(r: &mut Rng) -> Vec<FaultSpec> {
    let w = r.below(100);
    if w < 35 {
        vec![]
    } else if w < 55 {
        vec![FaultSpec { role: Role::Worker, kind: Sk::Sync, nth: r.below(14) as u32, action: "eio".into() }]
    } else if w < 80 {
        // two (sometimes three) consecutive sync failures: the second finds the file in the "older" position
        let n = r.below(12) as u32;
        let mut v = vec![FaultSpec { role: Role::Worker, kind: Sk::Sync, nth: n, action: "eio".into() }, FaultSpec { role: Role::Worker, kind: Sk::Sync, nth: n + 1, action: "eio".into() }];
        if r.chance(1, 3) {
            v.push(FaultSpec { role: Role::Worker, kind: Sk::Sync, nth: n + 2 + r.below(2) as u32, action: "eio".into() });
        }
        v
    } else if w < 86 {
        // creating the next chunk file fails once (at a rotation)
        vec![FaultSpec { role: Role::Caller, kind: Sk::Create, nth: r.range(1, 8) as u32, action: "eio".into() }]
    } else if w < 93 {
        let k = r.range(1, 30) as usize;
        let action = match r.below(3) {
            0 => "eio".to_string(),
            1 => format!("short:{}", k),
            _ => format!("partial:{}", k),
        };
        vec![FaultSpec { role: Role::Worker, kind: Sk::Write, nth: r.below(10) as u32, action }]
    } else {
        // a sync failure and a later short write
        vec![
            FaultSpec { role: Role::Worker, kind: Sk::Sync, nth: r.below(8) as u32, action: "eio".into() },
            FaultSpec { role: Role::Worker, kind: Sk::Write, nth: r.range(2, 9) as u32, action: format!("short:{}", r.range(1, 20)) },
        ]
    }
}

pub fn gen_case(seed: u64, hist: u64) -> SchedCase {
    let mut r = Rng::new(seed);
    let mut p = GenParams::default();
    p.tiny_chunks = true;
    p.big_payloads = false;
    p.flush_pm = 260;
    p.sync_pm = 30;
    p.min_ops = 15;
    p.max_ops = 45;
    p.purge_heavy = r.chance(1, 3);
    let mut h = seq::gen_case(r.next(), hist, &p, "C04");
    // a quarter of the histories carry one or two appends of 80-400 kB, preferably right after a flush: a
    // large amount of journalled-but-unflushed data next to a pending flush in the worker's queue
    if r.chance(1, 4) {
        let mut done = 0;
        let n = h.steps.len();
        for i in 1..n {
            let after_flush = matches!(h.steps[i - 1].op, crate::store::Op::Flush { .. });
            if let crate::store::Op::Append(es) = &mut h.steps[i].op {
                if (after_flush || r.chance(1, 6)) && done < 2 {
                    if let Some(e) = es.first_mut() {
                        let target = *r.pick(&[80_000usize, 140_000, 300_000, 400_000]);
                        while e.1.len() < target {
                            e.1.push('L');
                        }
                        done += 1;
                    }
                }
            }
        }
    }
    let sched = sched::gen_sched(&mut r, h.steps.len());
    let faults = gen_faults(&mut r);
    SchedCase { hist: h, sched, faults, reader_steps: vec![], gate_acks: r.chance(1, 3) }
}

/// One flush that carries several MiB: 10-40 appends of 300 kB are journalled with the worker idle, then a single
/// flush(callback). The same soundness rule applies at its acknowledgement (however the store hands that much to the
/// worker, everything journalled before the call must be written and synced when the callback says Ok).
pub fn big_flush_case(seed: u64) -> SchedCase {
    use crate::genr::{Expect, Step};
    use crate::store::{CfgSpec, Op};
    let mut r = Rng::new(seed);
    let n = r.range(10, 40);
    let mut steps = vec![];
    steps.push(Step { op: Op::Vote((1, 1)), expect: Expect::Accept });
    steps.push(Step { op: Op::Sync, expect: Expect::Accept });
    for i in 0..n {
        let mut p = format!("bigflush{}:", i);
        let target = *r.pick(&[300_000usize, 300_000, 120_000, 500_000]);
        while p.len() < target {
            p.push((b'a' + (i % 26) as u8) as char);
        }
        steps.push(Step { op: Op::Append(vec![((1, i), p)]), expect: Expect::Accept });
    }
    steps.push(Step { op: Op::Flush { cb: true }, expect: Expect::Accept });
    steps.push(Step { op: Op::Commit((1, n - 1)), expect: Expect::Accept });
    steps.push(Step { op: Op::Sync, expect: Expect::Accept });
    let cfg = CfgSpec { max_records: Some(*r.pick(&[1000usize, 7])), read_buf: Some(4096), ..Default::default() };
    let hist = seq::HistCase { seed, hist: 8_000_000, cfg, steps, tags: vec!["big_flush".into()], plan: "C04".into(), create_fault: None };
    // the worker runs freely to idle after every step except that it is looked at one call at a time after the big flush
    let mut sched: Vec<u8> = vec![sched::DRAIN; hist.steps.len()];
    let fl = hist.steps.len() - 3;
    sched[fl] = *r.pick(&[1u8, 2, 3, sched::DRAIN]);
    SchedCase { hist, sched, faults: vec![], reader_steps: vec![], gate_acks: r.chance(1, 2) }
}

pub fn run_one(case: &SchedCase, stats: &mut C04Stats) -> Result<(RunRec, Vec<Viol>), RunErr> {
    let dir = util::fresh_dir("c04");
    let res = sched::run(case, &mut NoObserver, &dir);
    util::remove_dir(&dir);
    let rr = res?;
    let viols = check(case, &rr, stats);
    Ok((rr, viols))
}

pub fn run_shard(ctx: &mut Ctx) {
    let mut r = Rng::new(ctx.shard_seed());
    let quick_n = 400u64;
    let mut h = 0u64;
    let mut stats = C04Stats::default();
    // (the two scenarios after the main loop keep a quarter of the time box)
    ctx.begin_phase(0.75);
    loop {
        if ctx.tier == Tier::Quick && h >= quick_n {
            break;
        }
        if !ctx.time_left() {
            break;
        }
        let case = gen_case(r.next(), h + ctx.shard as u64 * 1_000_000);
        h += 1;
        ctx.out.evaluations += 1;
        match run_one(&case, &mut stats) {
            Ok((rr, viols)) => {
                ctx.out.count("flush_calls", rr.flushes.len() as u64);
                ctx.out.count("worker_stall_points", rr.stall_points);
                ctx.out.count("trace_events", rr.trace.evs.len() as u64);
                ctx.out.count("faults_injected", rr.faults_fired as u64);
                if rr.faults_fired > 0 {
                    ctx.out.count("histories_with_fault", 1);
                }
                if rr.faults_fired >= 2 {
                    ctx.out.count("histories_with_two_or_more_faults", 1);
                }
                if rr.worker_dead {
                    ctx.out.count("histories_where_worker_died_of_write_error", 1);
                }
                for f in &case.faults {
                    ctx.out.count(&format!("fault_planned:{}:{}", f.kind.name(), f.action.split(':').next().unwrap_or("")), 1);
                }
                let n_acks = rr.trace.evs.iter().filter(|e| matches!(e.k, Ek::Ack { .. })).count();
                if n_acks >= 1 && viols.is_empty() {
                    ctx.out.distinct.insert(sched::interleaving_hash(&rr.trace));
                }
                if h == 1 {
                    ctx.out.sample(json!({"config": case.hist.cfg.to_json(), "ops": crate::genr::steps_brief(&case.hist.steps), "schedule": case.sched, "faults": case.faults.iter().map(|f| f.to_json()).collect::<Vec<_>>(), "trace_head": sched::trace_brief(&rr.trace, 60)}));
                }
                for vi in viols {
                    ctx.out.viol(vi);
                }
            }
            Err(RunErr::Viol(vi)) => ctx.out.viol(vi),
            Err(RunErr::Inconclusive(s)) => ctx.out.inconclusive.push(s),
        }
    }
    ctx.end_phase();
    // the built-in channel callback shared by several flushes, read late
    {
        ctx.begin_phase(0.1);
        let n = if ctx.tier == Tier::Quick { 12 } else { 1000 };
        for _ in 0..n {
            if !ctx.time_left() {
                break;
            }
            match crate::props::pvote::shared_channel_round(r.next()) {
                Ok(k) => ctx.out.count("callbacks_received_over_a_shared_bounded_channel", k),
                Err(vi) => ctx.out.viol(vi),
            }
        }
        ctx.end_phase();
    }
    // single flushes of several MiB
    {
        let n = if ctx.tier == Tier::Quick { 2 } else { 40 };
        ctx.begin_phase(0.3);
        for _ in 0..n {
            if !ctx.time_left() {
                break;
            }
            let case = big_flush_case(r.next());
            match run_one(&case, &mut stats) {
                Ok((_, viols)) => {
                    ctx.out.count("flushes_of_several_MiB_checked", 1);
                    for vi in viols {
                        ctx.out.viol(vi);
                    }
                }
                Err(RunErr::Viol(vi)) => ctx.out.viol(vi),
                Err(RunErr::Inconclusive(s)) => ctx.out.inconclusive.push(s),
            }
        }
        ctx.end_phase();
    }
    // the worker's largest possible batch: a full request queue behind a parked worker
    {
        let n = if ctx.tier == Tier::Quick { 2 } else { 30 };
        let dl = ctx.begin_phase(0.5);
        crate::props::maxbatch::run(&mut ctx.out, n, &mut r, &|| util::now_s() < dl);
        ctx.end_phase();
    }
    // shutdown: a flush with a callback issued right before the store is dropped (worker parked) must still be
    // answered exactly once by the time drop() has returned
    {
        let n = if ctx.tier == Tier::Quick { 10 } else { 150 };
        for i in 0..n {
            if !ctx.time_left() {
                break;
            }
            let mut case = crate::props::c14::gen_case(r.next(), 7_000_000 + i);
            case.unacked_final_flush = true;
            case.probe = false;
            case.hold_ms = 50;
            match crate::props::c14::run_one(&case) {
                Ok((_, Some(vi))) if vi.prop == "C04" => ctx.out.viol(vi),
                Ok(_) => ctx.out.count("shutdown_cases(flush_with_callback_then_drop)", 1),
                Err(RunErr::Viol(vi)) if vi.prop == "C04" => ctx.out.viol(vi),
                Err(RunErr::Inconclusive(e)) => ctx.out.inconclusive.push(e),
                Err(_) => {}
            }
        }
    }
    ctx.out.count("acks_ok_checked_against_shadow_fs", stats.acks_ok);
    ctx.out.count("acks_err", stats.acks_err);
    ctx.out.count("acks_ok_spanning_several_chunk_files", stats.acks_across_rotation);
    ctx.out.count("acks_in_a_batch_with_the_previous_ack", stats.batched_acks);
    ctx.out.count("acks_ok_while_newer_bytes_were_still_unsynced", stats.acks_with_unsynced_elsewhere);
    ctx.out.count("chunk_files_checked_at_acks", stats.files_checked);
}

pub fn replay(vj: &serde_json::Value) -> Option<Viol> {
    let case = SchedCase::from_json(&vj["case"])?;
    let mut stats = C04Stats::default();
    match run_one(&case, &mut stats) {
        Ok((rr, v)) => {
            if std::env::var("RLMON_DEBUG").is_ok() {
                for (i, e) in rr.trace.evs.iter().enumerate() {
                    eprintln!("{:4} {:6} {}", i, e.role.name(), e.k.short());
                }
                eprintln!("paths: {:?}", rr.trace.paths.iter().map(|p| p.rsplit('/').next().unwrap_or("").to_string()).collect::<Vec<_>>());
            }
            v.into_iter().next()
        }
        Err(RunErr::Viol(v)) => Some(v),
        Err(RunErr::Inconclusive(s)) => {
            eprintln!("inconclusive: {}", s);
            None
        }
    }
}
