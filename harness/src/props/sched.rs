//! Scheduled runner: drives a history against the real store while the flush
//! worker is stepped through its file-system calls by the gate, with optional
//! injected I/O faults. Produces the event trace plus the bookkeeping the
//! offline checkers need (C03, C04, C05, C08) and calls an observer at every
//! point where the worker is parked or idle (C07, C15).

use serde_json::{Value, json};

use crate::frame::Viol;
use crate::genr::{Expect, Gen};
use crate::model::{Model, Rec};
use crate::props::seq::HistCase;
use crate::store::{Op, Outcome, Store};
use crate::trace::{self, Ek, Fault, FaultAction, Point, Role, Sk, Trace};
use crate::util;

#[derive(Clone, Debug, PartialEq)]
pub struct FaultSpec {
    pub role: Role,
    pub kind: Sk,
    pub nth: u32,
    /// "eio" | "short:<k>" | "partial:<k>"
    pub action: String,
}

impl FaultSpec {
    pub fn to_fault(&self) -> Fault {
        let action = if let Some(k) = self.action.strip_prefix("short:") {
            FaultAction::ShortWrite(k.parse().unwrap_or(1))
        } else if let Some(k) = self.action.strip_prefix("partial:") {
            FaultAction::PartialThenEio(k.parse().unwrap_or(1))
        } else {
            FaultAction::Eio
        };
        Fault { role: self.role, kind: self.kind, nth: self.nth, action, fired: false }
    }
    pub fn to_json(&self) -> Value {
        json!({"role": self.role.name(), "kind": self.kind.name(), "nth": self.nth, "action": self.action})
    }
    pub fn from_json(v: &Value) -> Option<FaultSpec> {
        let role = match v["role"].as_str()? {
            "worker" => Role::Worker,
            "aux" => Role::Aux,
            _ => Role::Caller,
        };
        let kind = match v["kind"].as_str()? {
            "write" => Sk::Write,
            "sync" => Sk::Sync,
            "unlink" => Sk::Unlink,
            "create" => Sk::Create,
            _ => return None,
        };
        Some(FaultSpec { role, kind, nth: v["nth"].as_u64()? as u32, action: v["action"].as_str()?.to_string() })
    }
}

/// `DRAIN` in a schedule slot = let the worker run until it is idle.
pub const DRAIN: u8 = 255;

#[derive(Clone, Debug)]
pub struct SchedCase {
    pub hist: HistCase,
    /// worker steps released after each history step
    pub sched: Vec<u8>,
    pub faults: Vec<FaultSpec>,
    /// steps after which reader threads read concurrently with a free-running worker
    pub reader_steps: Vec<usize>,
    /// park the worker also at its ack callbacks
    pub gate_acks: bool,
}

impl SchedCase {
    pub fn to_json(&self) -> Value {
        json!({"hist": self.hist.to_json(), "sched": self.sched, "faults": self.faults.iter().map(|f| f.to_json()).collect::<Vec<_>>(),
               "reader_steps": self.reader_steps, "gate_acks": self.gate_acks})
    }
    pub fn from_json(v: &Value) -> Option<SchedCase> {
        Some(SchedCase {
            hist: HistCase::from_json(&v["hist"])?,
            sched: v["sched"].as_array()?.iter().map(|x| x.as_u64().unwrap_or(0) as u8).collect(),
            faults: v["faults"].as_array()?.iter().filter_map(FaultSpec::from_json).collect(),
            reader_steps: v["reader_steps"].as_array().map(|a| a.iter().map(|x| x.as_u64().unwrap_or(0) as usize).collect()).unwrap_or_default(),
            gate_acks: v["gate_acks"].as_bool().unwrap_or(false),
        })
    }
}

#[derive(Clone, Debug)]
pub struct StepRec {
    pub ev_begin: usize,
    pub ev_end: usize,
    pub writes_before: usize,
    pub writes_after: usize,
    pub outcome: Outcome,
}

#[derive(Clone, Debug)]
pub struct FlushRec {
    pub id: u64,
    pub step: usize,
    /// accepted single-record writes completed before this flush call
    pub writes_before: usize,
    /// journal end at the flush call
    pub gend: u64,
    pub cb: bool,
    /// index of the FlushCall event
    pub ev: usize,
    /// chunk files that left the store's closed list since the previous flush (scheduled for removal)
    pub removed: Vec<u64>,
    pub call_ok: bool,
}

#[derive(Clone, Copy, Debug, PartialEq, Eq)]
pub enum WorkerAt {
    Idle,
    Parked(Sk),
    Dead,
}

pub struct PointInfo<'a> {
    pub step: usize,
    pub worker: WorkerAt,
    pub point: Option<&'a Point>,
    /// true when this is the observation right after the caller's op returned
    pub after_op: bool,
    /// whether that op returned Ok
    pub op_ok: bool,
    /// how many single-record writes of that op took effect (a refused batch may have an accepted prefix)
    pub applied_records: usize,
}

pub trait Observer {
    fn at_point(&mut self, st: &Store, m: &Model, info: &PointInfo) -> Result<(), Viol>;
    /// called once after the final drain (worker idle), before the store is dropped
    fn at_end(&mut self, _st: &Store, _m: &Model) -> Result<(), Viol> {
        Ok(())
    }
    /// called with all reader results of a concurrent-read window
    fn readers_done(&mut self, _m: &Model, _results: Vec<Result<Vec<(crate::model::LogId, String)>, String>>, _step: usize) -> Result<(), Viol> {
        Ok(())
    }
}

pub struct NoObserver;
impl Observer for NoObserver {
    fn at_point(&mut self, _st: &Store, _m: &Model, _info: &PointInfo) -> Result<(), Viol> {
        Ok(())
    }
}

pub struct RunRec {
    pub trace: Trace,
    pub steps: Vec<StepRec>,
    pub flushes: Vec<FlushRec>,
    /// models[p] = reference log after p accepted single-record writes
    pub models: Vec<Model>,
    pub recs: Vec<Rec>,
    pub worker_dead: bool,
    pub faults_fired: usize,
    pub completed_steps: usize,
    pub stall_points: u64,
    pub dir: String,
    pub final_cfg: crate::store::CfgSpec,
    pub stop_reason: String,
}

pub enum RunErr {
    Viol(Viol),
    Inconclusive(String),
}

pub enum Settle {
    AtGate(i32, Point),
    Idle,
    Dead,
    Timeout,
    /// The worker thread is alive and asleep, not at the gate, requests sent > requests done, and neither the
    /// counters nor the trace moved during the last 0.8 s of observation: it waits for requests although, by the
    /// store's own accounting, some are unprocessed. Nobody else is sending, so this state cannot change any more.
    Stuck(String),
}

pub struct Runner<'a> {
    pub case: &'a SchedCase,
    pub st: Store,
    pub m: Model,
    pub models: Vec<Model>,
    pub recs: Vec<Rec>,
    pub steps: Vec<StepRec>,
    pub flushes: Vec<FlushRec>,
    pub worker_tid: Option<i32>,
    pub worker_dead: bool,
    pub stall_points: u64,
    pub step_ix: usize,
    pub closed_seen: std::collections::BTreeSet<u64>,
    pub inst: u32,
    pub last_op_ok: bool,
    pub last_applied: usize,
}

/// Custom ending of a scheduled run (replaces "drain the worker, close the store").
pub type Tail<'t> = &'t mut dyn FnMut(&mut Runner, &mut dyn Observer) -> Result<(), RunErr>;

pub fn settle_raw(rl: Option<&raft_log::RaftLog<crate::store::V>>, worker_tid: &mut Option<i32>) -> Settle {
    let t0 = util::now_s();
    let mut spins = 0u32;
    let mut last_sample = 0.0f64;
    let mut stuck_sig = None;
    let mut stuck_n = 0u32;
    loop {
        for (tid, w, _a) in trace::gate_lanes(Role::Worker) {
            if let Some(p) = w {
                *worker_tid = Some(tid);
                return Settle::AtGate(tid, p);
            }
        }
        if let Some(rl) = rl {
            let (s, d) = rl.verif_worker_seq();
            if d >= s {
                return Settle::Idle;
            }
        }
        if let Some(t) = *worker_tid {
            if !trace::thread_alive(t) {
                return Settle::Dead;
            }
        }
        let el = util::now_s() - t0;
        if el > 10.0 {
            return Settle::Timeout;
        }
        if el > 1.5 && util::now_s() - last_sample > 0.1 {
            last_sample = util::now_s();
            if let (Some(t), Some(rl)) = (*worker_tid, rl) {
                let state = std::fs::read_to_string(format!("/proc/self/task/{}/stat", t)).ok().and_then(|x| x.rsplit(") ").next().and_then(|r| r.chars().next()));
                let sig = (state, rl.verif_worker_seq(), trace::ev_count());
                if state == Some('S') && stuck_sig == Some(sig) {
                    stuck_n += 1;
                    if stuck_n >= 8 {
                        let (s, d) = rl.verif_worker_seq();
                        return Settle::Stuck(format!("worker thread asleep outside the gate with {} request(s) sent but only {} done; nothing moved for 0.8 s", s, d));
                    }
                } else {
                    stuck_sig = Some(sig);
                    stuck_n = 0;
                }
            }
        }
        spins += 1;
        if spins < 2000 {
            std::thread::yield_now();
        } else {
            std::thread::sleep(std::time::Duration::from_micros(20));
        }
    }
}

impl Drop for Runner<'_> {
    fn drop(&mut self) {
        // never drop the store while its worker is parked at the gate
        trace::gate_disable();
    }
}

fn sviol(prop: &str, sig: &str, text: String, case: &SchedCase, step: usize) -> Viol {
    Viol { prop: prop.into(), sig: format!("{}:{}", prop, sig), text: format!("step {}: {}", step, text), replay: json!({"kind": "sched", "case": case.to_json(), "step": step}) }
}

impl<'a> Runner<'a> {
    pub fn settle(&mut self) -> Settle {
        settle_raw(self.st.rl.as_ref(), &mut self.worker_tid)
    }

    fn observe(&mut self, obs: &mut dyn Observer, worker: WorkerAt, point: Option<&Point>, after_op: bool) -> Result<(), RunErr> {
        if self.st.rl.is_none() {
            return Ok(());
        }
        let info = PointInfo { step: self.step_ix, worker, point, after_op, op_ok: self.last_op_ok, applied_records: self.last_applied };
        obs.at_point(&self.st, &self.m, &info).map_err(RunErr::Viol)
    }

    /// Let the worker perform up to `n` gated calls (DRAIN = until idle), observing at every stall.
    pub fn release(&mut self, n: u8, obs: &mut dyn Observer, after_op: bool) -> Result<(), RunErr> {
        let mut left = n;
        let mut first = after_op;
        loop {
            match self.settle() {
                Settle::AtGate(tid, pt) => {
                    self.stall_points += 1;
                    self.observe(obs, WorkerAt::Parked(pt.kind), Some(&pt), first)?;
                    first = false;
                    if left == 0 {
                        return Ok(());
                    }
                    trace::gate_grant(tid, 1);
                    if left != DRAIN {
                        left -= 1;
                    }
                }
                Settle::Idle => {
                    self.observe(obs, WorkerAt::Idle, None, first)?;
                    return Ok(());
                }
                Settle::Dead => {
                    self.worker_dead = true;
                    return Ok(());
                }
                Settle::Timeout => return Err(RunErr::Inconclusive(format!("step {}: worker neither parked nor idle after 10 s", self.step_ix))),
                Settle::Stuck(why) => {
                    // a request got lost inside the worker: its write/sync/callback/unlink never happens
                    let unacked: Vec<u64> = self.flushes.iter().filter(|f| f.cb && f.call_ok && trace::ack_state(f.id).is_none()).map(|f| f.id).collect();
                    if trace::fired_faults() == 0 && !unacked.is_empty() {
                        return Err(RunErr::Viol(sviol("C04", "callback_never_invoked:request_lost_by_the_worker", format!("{}; flush call(s) {:?} with a callback were never acknowledged although no I/O error was injected", why, unacked), self.case, self.step_ix)));
                    }
                    return Err(RunErr::Inconclusive(format!("step {}: {}", self.step_ix, why)));
                }
            }
        }
    }

    fn record_write(&mut self, op: &Op) -> Result<(), RunErr> {
        let mut m2 = self.m.clone();
        let (recs, res) = Gen::apply_to_model(&mut m2, op);
        if res.is_err() {
            return Err(RunErr::Inconclusive("generator produced a write the model rejects".into()));
        }
        for r in recs {
            self.m.apply(&r);
            self.recs.push(r);
            self.models.push(self.m.clone());
        }
        Ok(())
    }

    pub fn do_flush(&mut self, cb: bool) -> (u64, Outcome) {
        // chunk files on disk that the store no longer lists are scheduled for removal; those not
        // yet attributed to an earlier flush call are sent to the worker by this one
        let stat = self.st.rl().stat();
        let mut listed: std::collections::BTreeSet<u64> = stat.closed_chunks.iter().map(|c| c.chunk_id.0).collect();
        listed.insert(stat.open_chunk.chunk_id.0);
        let on_disk: Vec<u64> = crate::store::list_chunks(&self.st.dir).into_iter().map(|c| c.0).collect();
        let removed: Vec<u64> = on_disk.into_iter().filter(|c| !listed.contains(c) && !self.closed_seen.contains(c)).collect();
        for r in &removed {
            self.closed_seen.insert(*r);
        }
        let gend = stat.open_chunk.global_end;
        let ev = trace::ev_count();
        let (id, out) = self.st.flush(cb);
        self.flushes.push(FlushRec { id, step: self.step_ix, writes_before: self.recs.len(), gend, cb, ev, removed, call_ok: out.is_ok() });
        (id, out)
    }

    fn note_closed(&mut self) {}
}

/// Run a scheduled case. The directory is left in place (caller removes it).
pub fn run(case: &SchedCase, obs: &mut dyn Observer, dir: &str) -> Result<RunRec, RunErr> {
    run_with_tail(case, obs, dir, None, 0, 0)
}

/// As `run`, with a custom ending and additional gated roles / call kinds.
pub fn run_with_tail(case: &SchedCase, obs: &mut dyn Observer, dir: &str, tail: Option<Tail>, extra_roles: u8, extra_kinds: u16) -> Result<RunRec, RunErr> {
    trace::reset_acks();
    trace::begin(dir);
    trace::set_faults(case.faults.iter().map(|f| f.to_fault()).collect());
    let kinds = Sk::Write.bit() | Sk::Sync.bit() | Sk::Unlink.bit() | if case.gate_acks { Sk::Ack.bit() } else { 0 };
    trace::gate_enable(Role::Worker.bit() | extra_roles, kinds | extra_kinds);
    let res = run_inner(case, obs, dir, tail);
    trace::gate_disable();
    let tr = trace::end();
    match res {
        Ok(mut rr) => {
            rr.faults_fired = tr.faults.iter().filter(|f| f.fired).count();
            rr.trace = tr;
            Ok(rr)
        }
        Err(e) => Err(e),
    }
}

fn run_inner(case: &SchedCase, obs: &mut dyn Observer, dir: &str, tail: Option<Tail>) -> Result<RunRec, RunErr> {
    let h = &case.hist;
    let st = match Store::open(dir, &h.cfg, 1) {
        Ok(s) => s,
        Err(o) => return Err(RunErr::Viol(sviol("C05", "open_empty_dir", format!("open of an empty directory: {}", o.brief()), case, 0))),
    };
    let mut r = Runner { case, st, m: Model::new(), models: vec![Model::new()], recs: vec![], steps: vec![], flushes: vec![], worker_tid: None, worker_dead: false, stall_points: 0, step_ix: 0, closed_seen: Default::default(), inst: 1, last_op_ok: true, last_applied: 0 };
    let mut stop_reason = String::new();
    let mut completed = 0usize;
    for (i, step) in h.steps.iter().enumerate() {
        r.step_ix = i;
        if r.worker_dead {
            stop_reason = "worker thread ended after an injected fault".into();
            break;
        }
        let ev_begin = trace::ev_count();
        trace::note(Ek::OpBegin { op: i as u32 });
        let wb = r.recs.len();
        let mut outcome = Outcome::Ok(None);
        match (&step.op, &step.expect) {
            (op, Expect::Accept) if op.is_write() => {
                outcome = r.st.write(op);
                match &outcome {
                    Outcome::Ok(_) => r.record_write(op)?,
                    Outcome::Err(e) => {
                        if trace::fired_faults() > 0 && !e.contains("Failed to send request") && case.faults.iter().any(|f| f.kind == Sk::Create) {
                            // An injected failure to create the next chunk file surfaced in this call. The record itself was
                            // journalled and applied before the rotation was attempted (a batch stops at that entry): follow
                            // what the store reports and carry on; later flushes, crashes and reads must still be right.
                            let last_now = r.st.state().last;
                            let mut m2 = r.m.clone();
                            let (recs, _) = Gen::apply_to_model(&mut m2, op);
                            let mut applied = recs.len();
                            if let Op::Append(es) = op {
                                applied = es.iter().position(|(id, _)| Some(*id) == last_now).map(|p| p + 1).unwrap_or(0);
                            }
                            let total = recs.len();
                            for rec in recs.into_iter().take(applied) {
                                r.m.apply(&rec);
                                r.recs.push(rec);
                                r.models.push(r.m.clone());
                            }
                            trace::note(Ek::OpEnd { op: i as u32, ok: false });
                            r.last_op_ok = false;
                            if applied < total || !e.contains("os error 5") {
                                // the batch was cut short (or this is a later refusal): the rest of the pre-generated
                                // history no longer fits the state; end it here
                                stop_reason = "history ended after an injected chunk-creation failure cut a batch short".into();
                                r.steps.push(StepRec { ev_begin, ev_end: trace::ev_count(), writes_before: wb, writes_after: r.recs.len(), outcome });
                                completed = i + 1;
                                break;
                            }
                            let n = case.sched.get(i).copied().unwrap_or(0);
                            r.release(n, obs, true)?;
                            r.steps.push(StepRec { ev_begin, ev_end: trace::ev_count(), writes_before: wb, writes_after: r.recs.len(), outcome });
                            completed = i + 1;
                            continue;
                        }
                        if trace::fired_faults() > 0 {
                            stop_reason = format!("write failed after injected fault: {}", e);
                            trace::note(Ek::OpEnd { op: i as u32, ok: false });
                            break;
                        }
                        return Err(RunErr::Viol(sviol("C01", "accepted_write_refused", format!("{} -> Err({})", op.brief(), e), case, i)));
                    }
                    Outcome::Panic(p) => return Err(RunErr::Viol(sviol("C16", "panic_in_legal_write", format!("{} panicked: {}", op.brief(), p), case, i))),
                }
                r.note_closed();
            }
            (op, Expect::Reject { .. }) if op.is_write() => {
                // a call the specification refuses: executed like any other call; only the accepted prefix of a batch
                // takes effect (whether it leaves a trace is C06's subject, here it must just not disturb the rest)
                outcome = r.st.write(op);
                let mut m2 = r.m.clone();
                let (recs, _) = Gen::apply_to_model(&mut m2, op);
                if outcome.is_err() {
                    // follow the store for how much of a batch took effect (an injected chunk-creation failure may
                    // have ended it before the refused entry was reached)
                    let mut applied = recs.len();
                    if let Op::Append(es) = op {
                        let last_now = r.st.state().last;
                        applied = es.iter().position(|(id, _)| Some(*id) == last_now).map(|p| p + 1).unwrap_or(0).min(recs.len());
                    }
                    let cut = applied < recs.len();
                    for rec in recs.into_iter().take(applied) {
                        r.m.apply(&rec);
                        r.recs.push(rec);
                        r.models.push(r.m.clone());
                    }
                    if cut {
                        trace::note(Ek::OpEnd { op: i as u32, ok: false });
                        r.last_op_ok = false;
                        stop_reason = "history ended: a fault cut a partly refused batch short".into();
                        r.steps.push(StepRec { ev_begin, ev_end: trace::ev_count(), writes_before: wb, writes_after: r.recs.len(), outcome });
                        completed = i + 1;
                        break;
                    }
                } else if outcome.is_ok() {
                    return Err(RunErr::Viol(sviol("C06", "rejected_call_returned_ok", format!("{} -> Ok", op.brief()), case, i)));
                }
            }
            (Op::Misc(k), _) => {
                // dump / snapshot iteration with the worker wherever the schedule left it
                let o = r.st.misc(*k);
                if !o.is_ok() {
                    return Err(RunErr::Viol(sviol("C11", "dump_error", format!("read-only call {} in the middle of a history: {}", k, o.brief()), case, i)));
                }
                outcome = o;
            }
            (Op::Flush { cb }, _) => {
                let (_id, out) = r.do_flush(*cb);
                outcome = out.clone();
                if !out.is_ok() {
                    if trace::fired_faults() > 0 {
                        stop_reason = format!("flush call failed after injected fault: {}", out.brief());
                        trace::note(Ek::OpEnd { op: i as u32, ok: false });
                        break;
                    }
                    return Err(RunErr::Viol(sviol("C04", "flush_call_failed", format!("flush returned {} without any injected fault", out.brief()), case, i)));
                }
            }
            (Op::Sync, _) | (Op::Reopen(_), _) => {
                let (id, out) = r.do_flush(true);
                outcome = out.clone();
                if !out.is_ok() {
                    if trace::fired_faults() > 0 {
                        stop_reason = format!("flush call failed after injected fault: {}", out.brief());
                        trace::note(Ek::OpEnd { op: i as u32, ok: false });
                        break;
                    }
                    return Err(RunErr::Viol(sviol("C04", "flush_call_failed", format!("flush returned {} without any injected fault", out.brief()), case, i)));
                }
                trace::note(Ek::OpEnd { op: i as u32, ok: true });
                r.release(DRAIN, obs, true)?;
                if r.worker_dead {
                    stop_reason = "worker thread ended after an injected fault".into();
                    r.steps.push(StepRec { ev_begin, ev_end: trace::ev_count(), writes_before: wb, writes_after: r.recs.len(), outcome });
                    break;
                }
                let ack = trace::ack_state(id);
                let faulty = trace::fired_faults() > 0;
                match ack {
                    Some(trace::AckState::Ok) => {}
                    other => {
                        if !faulty {
                            return Err(RunErr::Viol(sviol("C04", "no_ack_without_fault", format!("flush #{} with callback: worker idle, no I/O error injected, callback state {:?}", id, other), case, i)));
                        }
                    }
                }
                if let Op::Reopen(newcfg) = &step.op {
                    // After a failed fdatasync the store lives on (the worker reports the error and keeps serving), so a
                    // restart is an ordinary continuation: what was written is still there for the next instance, durable or
                    // not. Other faults (a write error ends the worker, a failed creation may have cut a batch) end the history.
                    let only_sync_faults = case.faults.iter().all(|f| f.kind == Sk::Sync);
                    if faulty && !(only_sync_faults && !r.worker_dead) {
                        stop_reason = "restart skipped after injected fault".into();
                        r.steps.push(StepRec { ev_begin, ev_end: trace::ev_count(), writes_before: wb, writes_after: r.recs.len(), outcome });
                        break;
                    }
                    r.st.close();
                    r.inst += 1;
                    match Store::open(dir, newcfg, r.inst) {
                        Ok(s) => r.st = s,
                        Err(o) => return Err(RunErr::Viol(sviol("C02", "reopen_failed", format!("open after clean close: {}", o.brief()), case, i))),
                    }
                    r.closed_seen.clear();
                    r.note_closed();
                    r.worker_tid = None;
                }
                r.steps.push(StepRec { ev_begin, ev_end: trace::ev_count(), writes_before: wb, writes_after: r.recs.len(), outcome });
                completed = i + 1;
                continue;
            }
            _ => {}
        }
        trace::note(Ek::OpEnd { op: i as u32, ok: outcome.is_ok() });
        r.last_op_ok = outcome.is_ok();
        r.last_applied = r.recs.len() - wb;
        let n = case.sched.get(i).copied().unwrap_or(0);
        r.release(n, obs, true)?;
        if case.reader_steps.contains(&i) && !r.worker_dead {
            concurrent_readers(&mut r, obs)?;
        }
        r.steps.push(StepRec { ev_begin, ev_end: trace::ev_count(), writes_before: wb, writes_after: r.recs.len(), outcome });
        completed = i + 1;
    }
    // let the worker finish whatever is queued
    r.step_ix = h.steps.len();
    if let Some(t) = tail {
        t(&mut r, obs)?;
    } else {
        if !r.worker_dead {
            r.release(DRAIN, obs, false)?;
        }
        if !r.worker_dead && r.st.rl.is_some() {
            obs.at_end(&r.st, &r.m).map_err(RunErr::Viol)?;
        }
    }
    let final_cfg = r.st.cfg.clone();
    let worker_dead = r.worker_dead;
    // A parked worker would block a joining Drop. It is idle or dead here, but the drop itself may hand it more work
    // (nothing does on the unchanged tree): from here on the worker runs freely; its calls are still traced.
    trace::gate_disable();
    r.st.close();
    Ok(RunRec {
        trace: Trace::default(),
        steps: std::mem::take(&mut r.steps),
        flushes: std::mem::take(&mut r.flushes),
        models: std::mem::take(&mut r.models),
        recs: std::mem::take(&mut r.recs),
        worker_dead,
        faults_fired: 0,
        completed_steps: completed,
        stall_points: r.stall_points,
        dir: dir.to_string(),
        final_cfg,
        stop_reason,
    })
}

/// Reader threads read everything while the worker is released to run freely.
fn concurrent_readers(r: &mut Runner, obs: &mut dyn Observer) -> Result<(), RunErr> {
    let results = std::sync::Mutex::new(Vec::new());
    let stop = std::sync::atomic::AtomicBool::new(false);
    let mut drained = Ok(());
    let mut dead = false;
    {
        let rl = r.st.rl.as_ref().unwrap();
        let wt = &mut r.worker_tid;
        let results = &results;
        let stop = &stop;
        std::thread::scope(|s| {
            for t in 0..4u32 {
                s.spawn(move || {
                    let mut n = 0;
                    loop {
                        let a = crate::store::guarded(|| rl.read(0, u64::MAX).collect::<Result<Vec<_>, _>>());
                        let a = match a {
                            Ok(Ok(v)) => Ok(v),
                            Ok(Err(e)) => Err(format!("read: {}", e)),
                            Err(p) => Err(format!("read panicked: {}", p)),
                        };
                        results.lock().unwrap().push(a);
                        if t % 2 == 1 {
                            let b = crate::store::guarded(|| {
                                let mut d = rl.dump_data();
                                d.iter().collect::<Result<Vec<_>, _>>()
                            });
                            let b = match b {
                                Ok(Ok(v)) => Ok(v),
                                Ok(Err(e)) => Err(format!("iter: {}", e)),
                                Err(p) => Err(format!("iter panicked: {}", p)),
                            };
                            results.lock().unwrap().push(b);
                        }
                        n += 1;
                        if n >= 2 && stop.load(std::sync::atomic::Ordering::Relaxed) {
                            break;
                        }
                        if n > 200 {
                            break;
                        }
                    }
                });
            }
            // meanwhile the worker runs to idle, one granted call at a time
            let mut guard = 0;
            loop {
                guard += 1;
                match settle_raw(Some(rl), wt) {
                    Settle::AtGate(tid, _) => trace::gate_grant(tid, 1),
                    Settle::Idle => break,
                    Settle::Dead => {
                        dead = true;
                        break;
                    }
                    Settle::Timeout | Settle::Stuck(_) => {
                        drained = Err(RunErr::Inconclusive("worker did not settle during concurrent reads".into()));
                        break;
                    }
                }
                if guard > 100_000 {
                    break;
                }
            }
            stop.store(true, std::sync::atomic::Ordering::Relaxed);
        });
    }
    drained?;
    if dead {
        r.worker_dead = true;
    }
    let res = results.into_inner().unwrap();
    obs.readers_done(&r.m, res, r.step_ix).map_err(RunErr::Viol)
}

// ---------------------------------------------------------------------------------------
// schedule generation

pub fn gen_sched(r: &mut util::Rng, n: usize) -> Vec<u8> {
    let style = r.below(4);
    (0..n)
        .map(|_| match style {
            0 => DRAIN,                                                  // eager worker
            1 => *r.pick(&[0u8, 0, 0, 0, 0, 1, 1, 2, DRAIN]),            // lazy worker, long stalls
            2 => *r.pick(&[0u8, 1, 1, 2, 2, 3, 5, DRAIN]),               // interleaved
            _ => *r.pick(&[0u8, 0, 1, 2, 3, DRAIN, DRAIN]),
        })
        .collect()
}

pub fn trace_brief(t: &Trace, max: usize) -> Vec<String> {
    t.evs.iter().take(max).map(|e| format!("{}:{}", &e.role.name()[..1], e.k.short())).collect()
}

/// Projection of a trace used to count distinct interleavings: (role, kind, file#) of fs events and acks.
pub fn interleaving_hash(t: &Trace) -> u64 {
    let mut h = 7u64;
    for e in &t.evs {
        let code = match &e.k {
            Ek::Create { path } => 1 + 16 * (*path as u64),
            Ek::Write { path, .. } => 2 + 16 * (*path as u64),
            Ek::Sync { path, .. } => 3 + 16 * (*path as u64),
            Ek::Trunc { path, .. } => 4 + 16 * (*path as u64),
            Ek::Unlink { path, .. } => 5 + 16 * (*path as u64),
            Ek::Ack { .. } => 6,
            Ek::OpBegin { .. } => 7,
            Ek::FlushCall { .. } => 8,
            _ => continue,
        };
        h = util::fnv_mix(h, code * 4 + e.role as u64);
    }
    h
}
