//! C07 (reads independent of cache limits and worker progress) and C15 (cache accounting):
//! observers on the scheduled runner. Reads / cache observations are made at every point
//! where the worker is parked at one of its file-system calls or idle, under tiny cache limits.

use serde_json::json;

use crate::frame::{Ctx, Tier, Viol};
use crate::genr::GenParams;
use crate::model::{LogId, Model};
use crate::props::sched::{self, Observer, PointInfo, RunErr, SchedCase, WorkerAt};
use crate::props::seq;
use crate::store::{Op, Outcome2, Store};
use crate::util::{self, Rng};

pub fn gen_case(seed: u64, hist: u64, plan: &str) -> SchedCase {
    let mut r = Rng::new(seed);
    let mut p = GenParams::default();
    p.tiny_chunks = r.chance(2, 3);
    p.small_cache = true;
    p.big_payloads = false;
    p.flush_pm = 150;
    p.sync_pm = 70;
    p.min_ops = 15;
    p.max_ops = 50;
    p.reopen_pm = if r.chance(1, 3) { 30 } else { 0 };
    p.reject_pm = 30;
    // half of the histories never re-append with a lower term than a removed suffix
    p.lower_term = r.chance(1, 2);
    let h = seq::gen_case(r.next(), hist, &p, plan);
    let sched = sched::gen_sched(&mut r, h.steps.len());
    let mut reader_steps = vec![];
    for i in 0..h.steps.len() {
        if r.chance(1, 12) {
            reader_steps.push(i);
        }
    }
    // creating the next chunk file fails once in a fifth of the histories: the buffered records must stay readable
    // ... and in a tenth one write of the worker fails (the worker ends; what it had not written stays pinned in the
    // cache and must stay readable for as long as the store object lives)
    let fw = r.below(10);
    let faults = if fw < 2 {
        vec![sched::FaultSpec { role: crate::trace::Role::Caller, kind: crate::trace::Sk::Create, nth: r.range(1, 8) as u32, action: "eio".into() }]
    } else if fw == 2 {
        vec![sched::FaultSpec { role: crate::trace::Role::Worker, kind: crate::trace::Sk::Write, nth: r.below(10) as u32, action: if r.chance(1, 2) { "eio".into() } else { format!("partial:{}", r.range(1, 20)) } }]
    } else {
        vec![]
    };
    SchedCase { hist: h, sched, faults, reader_steps, gate_acks: r.chance(1, 2) }
}

// ---------------------------------------------------------------------------------------
// C07

pub struct C07Obs<'a> {
    pub case: &'a SchedCase,
    pub r: Rng,
    pub reads: u64,
    pub iters: u64,
    pub entries: u64,
    pub points: std::collections::BTreeMap<String, u64>,
    pub reader_results: u64,
    /// largest log id ever removed by a truncation so far (for the D7 signature)
    pub max_removed: Option<LogId>,
    pub prev_model: Model,
    pub miss_seen: u64,
    /// a snapshot (dump_data) taken earlier and not yet iterated, with the entries that were live then
    pub held: Option<(raft_log::DumpRaftLog<crate::store::V>, Vec<(LogId, String)>, u32)>,
    pub held_iterated: u64,
    pub boundary_checks: u64,
}

impl<'a> C07Obs<'a> {
    pub fn new(case: &'a SchedCase, seed: u64) -> Self {
        C07Obs { case, r: Rng::new(seed), reads: 0, iters: 0, entries: 0, points: Default::default(), reader_results: 0, max_removed: None, prev_model: Model::new(), miss_seen: 0, held: None, held_iterated: 0, boundary_checks: 0 }
    }

    fn track_truncations(&mut self, m: &Model) {
        // entries that were in the previous model, are gone now, and lie above the current last: truncated
        if m.log != self.prev_model.log {
            let last = m.st.last;
            for (ix, (id, p)) in self.prev_model.log.iter() {
                let still = m.log.get(ix).map(|(i2, p2)| i2 == id && p2 == p).unwrap_or(false);
                let purged = m.st.purged.map(|pg| *ix <= pg.1).unwrap_or(false);
                if !still && !purged {
                    let _ = last;
                    if Some(*id) > self.max_removed {
                        self.max_removed = Some(*id);
                    }
                }
            }
            self.prev_model = m.clone();
        }
    }

    /// which entry cannot be read, and how
    fn failing_entry(&self, st: &Store, m: &Model) -> Option<(LogId, String)> {
        for (ix, (id, _)) in m.log.iter() {
            match st.read(*ix, ix + 1) {
                Outcome2::Ok(_) => {}
                Outcome2::Err(e) => return Some((*id, e)),
                Outcome2::Panic(p) => return Some((*id, format!("panic: {}", p))),
            }
        }
        None
    }

    fn viol(&self, sig: &str, text: String, step: usize) -> Viol {
        Viol { prop: "C07".into(), sig: format!("C07:{}", sig), text: format!("step {}: {}", step, text), replay: json!({"kind": "c07", "case": self.case.to_json(), "step": step}) }
    }

    fn classify_error(&self, st: &Store, m: &Model, err: &str, how: &str, info: &str, step: usize) -> Viol {
        let fe = self.failing_entry(st, m);
        let class = if err.contains("Chunk not found") && err.contains("cache-miss read") {
            "chunk_not_found"
        } else if err.contains("failed to fill whole buffer") {
            "closed_chunk_tail_not_written_yet"
        } else if err.contains("panic") {
            "panic"
        } else {
            "io"
        };
        if let Some((id, _)) = &fe {
            // D7 pattern: the unreadable live entry was appended after a truncation that removed a log id >= its own,
            // so its id is not above the ids the eviction boundary was computed from
            if (class == "chunk_not_found" || class == "closed_chunk_tail_not_written_yet") && Some(*id) <= self.max_removed {
                return self.viol(
                    &format!("read_error:reappended_entry_not_above_removed_ids:{}", class),
                    format!("{} failed ({}) for live entry {:?}: it was appended after a truncation that removed log id {:?} >= it, so the log-id eviction boundary covers it although its bytes are not readable from a closed chunk yet [{}]", how, err, id, self.max_removed, info),
                    step,
                );
            }
        }
        self.viol(&format!("read_error:{}", class), format!("{} failed: {} (entry {:?}) [{}]", how, err, fe.map(|f| f.0), info), step)
    }
}

impl Observer for C07Obs<'_> {
    fn at_point(&mut self, st: &Store, m: &Model, info: &PointInfo) -> Result<(), Viol> {
        self.track_truncations(m);
        let wname = match info.worker {
            WorkerAt::Idle => "idle".to_string(),
            WorkerAt::Dead => "dead".to_string(),
            WorkerAt::Parked(k) => format!("parked_at_{}", k.name()),
        };
        *self.points.entry(wname.clone()).or_insert(0) += 1;
        let want = m.entries();
        let infos = format!("worker {}", wname);
        match st.read_all() {
            Outcome2::Ok(v) => {
                self.reads += 1;
                self.entries += v.len() as u64;
                if v != want {
                    return Err(self.viol("read_wrong", format!("read(0,MAX) {} [{}]", seq::diff_entries(&v, &want), infos), info.step));
                }
            }
            Outcome2::Err(e) => return Err(self.classify_error(st, m, &e, "read(0,MAX)", &infos, info.step)),
            Outcome2::Panic(p) => return Err(self.classify_error(st, m, &format!("panic: {}", p), "read(0,MAX)", &infos, info.step)),
        }
        match st.iter_all() {
            Outcome2::Ok(v) => {
                self.iters += 1;
                if v != want {
                    return Err(self.viol("iter_wrong", format!("dump_data().iter() {} [{}]", seq::diff_entries(&v, &want), infos), info.step));
                }
            }
            Outcome2::Err(e) => return Err(self.classify_error(st, m, &e, "dump_data().iter()", &infos, info.step)),
            Outcome2::Panic(p) => return Err(self.classify_error(st, m, &format!("panic: {}", p), "dump_data().iter()", &infos, info.step)),
        }
        // a random sub-range
        if let (Some(lo), Some(hi)) = (m.first_index(), m.st.last.map(|l| l.1)) {
            let a = lo + self.r.below(hi.saturating_sub(lo) + 1);
            let b = a + self.r.below(4);
            match st.read(a, b) {
                Outcome2::Ok(v) => {
                    self.reads += 1;
                    if v != m.range(a, b) {
                        return Err(self.viol("read_wrong", format!("read({},{}) {} [{}]", a, b, seq::diff_entries(&v, &m.range(a, b)), infos), info.step));
                    }
                }
                Outcome2::Err(e) => return Err(self.classify_error(st, m, &e, &format!("read({},{})", a, b), &infos, info.step)),
                Outcome2::Panic(p) => return Err(self.classify_error(st, m, &format!("panic: {}", p), "read(range)", &infos, info.step)),
            }
        }
        self.miss_seen = st.rl().stat().payload_cache_miss;
        // a snapshot taken earlier is iterated a few observations later: it must still yield exactly the
        // entries that were live when it was taken (later evictions, rotations and unlinks notwithstanding)
        let mut due = false;
        if let Some((_, _, age)) = self.held.as_mut() {
            *age += 1;
            due = *age >= 4;
        }
        if due {
            let (mut snap, entries, _) = self.held.take().unwrap();
            // (sometimes a first pass is abandoned after two entries, and a complete pass is always made twice: a
            // snapshot is a value, iterating it must not use it up)
            if self.r.chance(1, 3) {
                let _ = crate::store::guarded(|| snap.iter().take(2).count());
            }
            let first = crate::store::guarded(|| snap.iter().collect::<Result<Vec<_>, _>>());
            let got = match first {
                Ok(Ok(v1)) => {
                    let second = crate::store::guarded(|| snap.iter().collect::<Result<Vec<_>, _>>());
                    match second {
                        Ok(Ok(v2)) if v2 == v1 => Ok(Ok(v1)),
                        Ok(Ok(v2)) => return Err(self.viol("held_snapshot_second_pass_differs", format!("the same dump_data() snapshot iterated twice: first pass {} entries, second pass {}", v1.len(), seq::diff_entries(&v2, &v1)), info.step)),
                        // an error of the second pass is classified like one of the first
                        other => other,
                    }
                }
                other => other,
            };
            self.held_iterated += 1;
            // the D7 pattern can also hit a held snapshot; use the same classification
            match got {
                Ok(Ok(v)) if v == entries => {}
                Ok(Ok(v)) => return Err(self.viol("held_snapshot_wrong", format!("a dump_data() snapshot iterated 4 observations after it was taken: {}", seq::diff_entries(&v, &entries)), info.step)),
                Ok(Err(e)) => {
                    let es = e.to_string();
                    let class = if es.contains("Chunk not found") { "chunk_not_found" } else if es.contains("failed to fill whole buffer") { "closed_chunk_tail_not_written_yet" } else { "io" };
                    if class != "io" && entries.iter().any(|(id, _)| Some(*id) <= self.max_removed) {
                        return Err(self.viol(&format!("read_error:reappended_entry_not_above_removed_ids:{}", class), format!("held snapshot: {}", es), info.step));
                    }
                    return Err(self.viol("held_snapshot_error", format!("a dump_data() snapshot iterated 4 observations after it was taken failed: {}", es), info.step));
                }
                Err(p) => return Err(self.viol("held_snapshot_panic", p, info.step)),
            }
        } else if self.held.is_none() && self.r.chance(1, 5) {
            self.held = Some((st.rl().dump_data(), want.clone(), 0));
        }
        // The eviction boundary after a completed flush with the worker idle is the last log id at the moment the
        // newest chunk was started (its head snapshot): anything higher would make entries of the open chunk evictable.
        if info.worker == WorkerAt::Idle && matches!(self.case.hist.steps.get(info.step).map(|s| &s.op), Some(Op::Sync)) && self.case.faults.is_empty() {
            let chunks = crate::store::list_chunks(&st.dir);
            if let Some((_, path)) = chunks.last() {
                if let Ok(bytes) = std::fs::read(path) {
                    if let Some((_, _, crate::model::Rec::State(hs))) = crate::refcodec::parse_file(&bytes).recs.first() {
                        self.boundary_checks += 1;
                        let b = st.rl().stat().payload_cache_last_evictable;
                        if b > hs.last {
                            return Err(self.viol("eviction_boundary_above_newest_chunk_head", format!("after flush + ack + idle the eviction boundary is {:?}, but the newest chunk was started when the last log id was {:?}: entries of the open chunk at or below {:?} are evictable although only the cache holds them", b, hs.last, b), info.step));
                        }
                    }
                }
            }
        }
        Ok(())
    }

    fn readers_done(&mut self, m: &Model, results: Vec<Result<Vec<(LogId, String)>, String>>, step: usize) -> Result<(), Viol> {
        let want = m.entries();
        for r in results {
            self.reader_results += 1;
            match r {
                Ok(v) => {
                    if v != want {
                        return Err(self.viol("concurrent_reader_wrong", format!("a reader thread running concurrently with the worker saw {}", seq::diff_entries(&v, &want)), step));
                    }
                }
                Err(e) => {
                    let class = if e.contains("Chunk not found") { "chunk_not_found" } else if e.contains("failed to fill whole buffer") { "closed_chunk_tail_not_written_yet" } else { "" };
                    // the store is not at hand here: the D7 pattern is recognised on ids only
                    if !class.is_empty() && self.max_removed.is_some() && m.log.values().any(|(id, _)| Some(*id) <= self.max_removed) {
                        return Err(self.viol(&format!("read_error:reappended_entry_not_above_removed_ids:{}", class), format!("concurrent reader: {}", e), step));
                    }
                    return Err(self.viol("concurrent_reader_error", format!("a reader thread running concurrently with the worker failed: {}", e), step));
                }
            }
        }
        Ok(())
    }
}

// ---------------------------------------------------------------------------------------
// C15

pub struct C15Obs<'a> {
    pub case: &'a SchedCase,
    pub observations: u64,
    pub over_limit_observations: u64,
    pub over_limit_pinned_entries: u64,
    pub max_resident: u64,
    pub prev_recs: usize,
    pub drains: u64,
    pub drains_with_readers: u64,
}

impl<'a> C15Obs<'a> {
    pub fn new(case: &'a SchedCase) -> Self {
        C15Obs { case, observations: 0, over_limit_observations: 0, over_limit_pinned_entries: 0, max_resident: 0, prev_recs: 0, drains: 0, drains_with_readers: 0 }
    }
    fn viol(&self, sig: &str, text: String, step: usize) -> Viol {
        Viol { prop: "C15".into(), sig: format!("C15:{}", sig), text: format!("step {}: {}", step, text), replay: json!({"kind": "c15", "case": self.case.to_json(), "step": step}) }
    }
}

impl Observer for C15Obs<'_> {
    fn at_point(&mut self, st: &Store, _m: &Model, info: &PointInfo) -> Result<(), Viol> {
        let rl = st.rl();
        // stat() and the resident list are two lock acquisitions; the worker is parked or idle and
        // this (caller) thread is the only other writer, so nothing moves in between
        let s = rl.stat();
        let (boundary, resident) = rl.verif_cache_resident();
        self.observations += 1;
        self.max_resident = self.max_resident.max(resident.len() as u64);
        let n = resident.len() as u64;
        let bytes: u64 = resident.iter().map(|(_, sz)| *sz).sum();
        if s.payload_cache_item_count != n {
            return Err(self.viol("item_count", format!("stat reports {} cached items, {} are resident", s.payload_cache_item_count, n), info.step));
        }
        if s.payload_cache_size != bytes {
            return Err(self.viol("size", format!("stat reports cache size {} bytes, resident payloads total {} bytes ({} items)", s.payload_cache_size, bytes, n), info.step));
        }
        // the limits in force are the configured ones
        let want_items = st.cfg.max_items.unwrap_or(100_000) as u64;
        let want_cap = st.cfg.capacity.unwrap_or(1024 * 1024 * 1024) as u64;
        if s.payload_cache_max_item != want_items || s.payload_cache_capacity != want_cap {
            return Err(self.viol("limits_not_the_configured_ones", format!("configured max_items/capacity {}/{} but the cache works with {}/{}", want_items, want_cap, s.payload_cache_max_item, s.payload_cache_capacity), info.step));
        }
        if s.payload_cache_last_evictable != boundary {
            return Err(self.viol("boundary_mismatch", format!("stat boundary {:?} != cache boundary {:?}", s.payload_cache_last_evictable, boundary), info.step));
        }
        // limit clause: right after an append, with the worker parked/idle since before the call
        let step_op = self.case.hist.steps.get(info.step).map(|s| &s.op);
        // after every append that inserted something - including the accepted prefix of a batch that was then refused
        if info.after_op && info.applied_records > 0 && matches!(step_op, Some(Op::Append(es)) if !es.is_empty()) {
            let over = n > s.payload_cache_max_item || bytes > s.payload_cache_capacity;
            if over {
                self.over_limit_observations += 1;
                self.over_limit_pinned_entries += n;
                if let Some((id, _)) = resident.iter().find(|(id, _)| Some(*id) <= boundary) {
                    return Err(self.viol(
                        "over_limit_with_evictable_resident",
                        format!("after the append the cache holds {} items / {} bytes (limits {} / {}) although resident entry {:?} is at or below the evictable boundary {:?}", n, bytes, s.payload_cache_max_item, s.payload_cache_capacity, id, boundary),
                        info.step,
                    ));
                }
            }
        }
        Ok(())
    }

    fn at_end(&mut self, st: &Store, _m: &Model) -> Result<(), Viol> {
        // worker idle: drain what is evictable, nothing at or below the boundary may stay resident.
        // In half of the runs reader threads hammer the cache while the single drain call is made.
        let rl = st.rl();
        if self.observations % 2 == 0 {
            let stop = std::sync::atomic::AtomicBool::new(false);
            let reader_panic: std::sync::Mutex<Option<String>> = std::sync::Mutex::new(None);
            let reader_panic = &reader_panic;
            std::thread::scope(|sc| {
                for _ in 0..3 {
                    sc.spawn(|| {
                        let mut n = 0u32;
                        while !stop.load(std::sync::atomic::Ordering::Relaxed) && n < 20_000 {
                            if let Err(p) = crate::store::guarded(|| rl.read(0, u64::MAX).count()) {
                                *reader_panic.lock().unwrap() = Some(p);
                                break;
                            }
                            n += 1;
                        }
                    });
                }
                for _ in 0..200 {
                    std::thread::yield_now();
                }
                rl.drain_cache_evictable();
                stop.store(true, std::sync::atomic::Ordering::Relaxed);
            });
            self.drains_with_readers += 1;
            if let Some(p) = reader_panic.lock().unwrap().take() {
                return Err(Viol { prop: "C16".into(), sig: format!("C16:panic:read_concurrent_with_drain:{}", p.rsplit(" @ ").next().unwrap_or("?")), text: format!("a reader thread panicked while another thread drained the cache: {}", p), replay: json!({"kind": "c15", "case": self.case.to_json()}) });
            }
        } else {
            rl.drain_cache_evictable();
        }
        // "worker idle" must mean that the boundary is final: nothing may become evictable after the drain
        for _ in 0..300 {
            std::thread::yield_now();
        }
        let (boundary, resident) = rl.verif_cache_resident();
        let s = rl.stat();
        self.drains += 1;
        if let Some((id, _)) = resident.iter().find(|(id, _)| Some(*id) <= boundary) {
            return Err(self.viol("evictable_resident_after_drain", format!("worker idle and evictable entries drained, but resident entry {:?} <= boundary {:?}", id, boundary), usize::MAX));
        }
        if s.payload_cache_item_count != resident.len() as u64 || s.payload_cache_size != resident.iter().map(|r| r.1).sum::<u64>() {
            return Err(self.viol("count_after_drain", "stat and resident set disagree after drain".into(), usize::MAX));
        }
        Ok(())
    }
}

/// C07 "across restarts", crash flavour: process-crash / inside-write images taken around chunk-file
/// creations of a finished scheduled run are recovered under the same tiny cache limits; after the
/// recovery, after draining the evictable entries and after each of three further appends every live
/// entry must be readable. Only histories without the D7 pattern are used, so nothing is exempt.
pub fn reads_after_crash_restart(case: &SchedCase, rr: &sched::RunRec, r: &mut Rng, out: &mut crate::frame::ShardOut) {
    use crate::props::crash::{ImageDir, images_at};
    use crate::shadow::Shadow;
    use crate::trace::Ek;
    use std::collections::HashMap;
    let t = &rr.trace;
    let mut by_digest: HashMap<u64, Vec<usize>> = HashMap::new();
    for (p, m) in rr.models.iter().enumerate() {
        by_digest.entry(m.digest()).or_default().push(p);
    }
    let idir = ImageDir::new("c07crash");
    let mut sh = Shadow::new();
    let mut seen: std::collections::HashSet<u64> = Default::default();
    let mut cfg = rr.final_cfg.clone();
    cfg.truncate = None;
    if cfg.read_buf.is_none() {
        cfg.read_buf = Some(4096);
    }
    let mut budget = 24;
    for k in 0..t.evs.len() {
        sh.apply(t, &t.evs[k].k);
        // interesting points: a chunk file has just been created (empty newest chunk), or its head is about to be written
        let created = matches!(t.evs[k].k, Ek::Create { .. });
        if !(created || r.chance(1, 40)) || budget == 0 {
            continue;
        }
        let next_write = match t.evs.get(k + 1).map(|e| &e.k) {
            Some(Ek::Write { path, off, data, res }) if *res > 0 => sh.cid(t, *path).map(|c| (c, *off, data[..*res as usize].to_vec())),
            _ => None,
        };
        let nw = next_write.as_ref().map(|(c, o, d)| (*c, *o, d.as_slice()));
        for (fam, img) in images_at(&sh, nw, r, false) {
            if !(fam == "process_crash" || fam == "inside_write") || budget == 0 {
                continue;
            }
            if !seen.insert(crate::shadow::image_hash(&img)) {
                continue;
            }
            budget -= 1;
            idir.install(&img);
            let Ok(mut st) = Store::open(&idir.dir, &cfg, 90) else { continue };
            let state = st.state();
            out.count("crash_restart_images_recovered_under_tiny_cache", 1);
            // which prefix was recovered? (membership is C03's subject; here it only selects the model)
            let rl_entries_digest = |st: &Store| -> Option<u64> {
                match st.read_all() {
                    Outcome2::Ok(v) => Some(crate::model::digest_of(&st.state(), v.iter().map(|(id, p)| (*id, p.as_str())))),
                    _ => None,
                }
            };
            let mk = |sig: &str, text: String| Viol { prop: "C07".into(), sig: format!("C07:{}", sig), text: format!("crash after event {} ({}), image family {}: {}", k, t.evs[k].k.short(), fam, text), replay: json!({"kind": "c07", "case": case.to_json(), "crash_after_event": k}) };
            let first = rl_entries_digest(&st);
            let model = match first.and_then(|d| by_digest.get(&d)).and_then(|v| v.last()) {
                Some(p) => rr.models[*p].clone(),
                None => {
                    if first.is_none() {
                        let e = match st.read_all() {
                            Outcome2::Err(e) => e,
                            Outcome2::Panic(p) => p,
                            _ => String::new(),
                        };
                        out.viol(mk("read_error_after_crash_restart:first_read", format!("store recovered (state {:?}) but reading its entries failed: {}", state, e)));
                    }
                    st.close();
                    continue;
                }
            };
            let mut m = model;
            let mut fail = None;
            let check = |st: &Store, m: &Model, whenx: &str| -> Option<(String, String)> {
                for (how, res) in [("read(0,MAX)", st.read_all()), ("dump_data().iter()", st.iter_all())] {
                    match res {
                        Outcome2::Ok(v) if v == m.entries() => {}
                        Outcome2::Ok(v) => return Some(("read_wrong_after_crash_restart".into(), format!("{} {}: {}", how, whenx, seq::diff_entries(&v, &m.entries())))),
                        Outcome2::Err(e) => {
                            if std::env::var("RLMON_DEBUG").is_ok() {
                                eprintln!("DEBUG-AT-FAILURE {} {}: {}", how, whenx, e);
                                eprintln!("DEBUG-AT-FAILURE seq {:?} resident {:?}", st.seq(), st.rl().verif_cache_resident());
                                eprintln!("DEBUG-AT-FAILURE stat {}", st.rl().stat());
                                eprintln!("DEBUG-AT-FAILURE files {:?}", crate::store::list_chunks(&st.dir).iter().map(|(c, p)| (*c, std::fs::metadata(p).map(|m| m.len()).unwrap_or(0))).collect::<Vec<_>>());
                                for (ix, (id, _)) in m.log.iter() {
                                    if let Outcome2::Err(e) = st.read(*ix, ix + 1) {
                                        eprintln!("DEBUG-AT-FAILURE unreadable {:?}: {}", id, e);
                                    }
                                }
                            }
                            return Some(("read_error_after_crash_restart".into(), format!("{} {} failed: {}", how, whenx, e)));
                        }
                        Outcome2::Panic(p) => return Some(("read_panic_after_crash_restart".into(), format!("{} {} panicked: {}", how, whenx, p))),
                    }
                }
                None
            };
            st.rl().drain_cache_evictable();
            fail = fail.or(check(&st, &m, "after recovery + drain"));
            // a term above every term the history ever used: the new ids are above every removed id,
            // so the D7 pattern (re-append at or below a removed id) cannot arise here
            let top_term = rr.recs.iter().map(|r| r.max_term()).max().unwrap_or(0) + 1;
            let mut next = match m.st.last {
                Some(l) => (top_term.max(l.0 + 1), l.1 + 1),
                None => (top_term, 0),
            };
            for i in 0..3 {
                if fail.is_some() {
                    break;
                }
                let op = Op::Append(vec![(next, format!("after-crash-{}-{}", k, i))]);
                let wo = st.write(&op);
                if std::env::var("RLMON_DEBUG").is_ok() {
                    eprintln!("DEBUG append {:?} -> {:?}; state now {:?}; resident {:?}", next, wo, st.state(), st.rl().verif_cache_resident());
                }
                if !wo.is_ok() {
                    break;
                }
                crate::genr::Gen::apply_to_model(&mut m, &op);
                next = (next.0, next.1 + 1);
                fail = fail.or(check(&st, &m, "after an append following recovery"));
                st.rl().drain_cache_evictable();
                fail = fail.or(check(&st, &m, "after an append + drain following recovery"));
                out.count("reads_after_crash_restart", 4);
            }
            if fail.is_some() && std::env::var("RLMON_DEBUG").is_ok() {
                let stt = st.rl().stat();
                eprintln!("DEBUG image {:?}", img.iter().map(|(c, b)| (*c, b.len(), crate::refcodec::parse_file(b).recs.len())).collect::<Vec<_>>());
                eprintln!("DEBUG cfg {:?}", cfg);
                eprintln!("DEBUG stat {}", stt);
                eprintln!("DEBUG resident {:?}", st.rl().verif_cache_resident());
                eprintln!("DEBUG model {:?} entries {:?}", m.st, m.log.values().map(|e| e.0).collect::<Vec<_>>());
                for (ix, (id, _)) in m.log.iter() {
                    if let Outcome2::Err(e) = st.read(*ix, ix + 1) {
                        eprintln!("DEBUG unreadable {:?}: {}", id, e);
                    }
                }
                eprintln!("DEBUG seq {:?}", st.seq());
                eprintln!("DEBUG files now {:?}", crate::store::list_chunks(&idir.dir).iter().map(|(c, p)| (*c, std::fs::metadata(p).map(|m| m.len()).unwrap_or(0))).collect::<Vec<_>>());
            }
            let _ = st.wait_idle(5_000);
            st.close();
            if let Some((sig, text)) = fail {
                out.viol(mk(&sig, text));
            }
        }
    }
}

pub fn final_drain_check(case: &SchedCase, dir: &str, cfg: &crate::store::CfgSpec) -> Result<u64, Viol> {
    // reopen the directory (free-running worker), wait idle, drain, and check the last clause
    let mut st = match Store::open(dir, cfg, 80) {
        Ok(s) => s,
        Err(o) => return Err(Viol { prop: "C02".into(), sig: "C02:reopen_failed".into(), text: format!("reopen for drain check: {}", o.brief()), replay: json!({"kind": "c15", "case": case.to_json()}) }),
    };
    let _ = st.wait_idle(10_000);
    st.rl().drain_cache_evictable();
    let (boundary, resident) = st.rl().verif_cache_resident();
    let s = st.rl().stat();
    let res = if let Some((id, _)) = resident.iter().find(|(id, _)| Some(*id) <= boundary) {
        Err(Viol { prop: "C15".into(), sig: "C15:evictable_resident_after_drain".into(), text: format!("after idle + drain, resident entry {:?} <= boundary {:?}", id, boundary), replay: json!({"kind": "c15", "case": case.to_json()}) })
    } else if s.payload_cache_item_count != resident.len() as u64 || s.payload_cache_size != resident.iter().map(|r| r.1).sum::<u64>() {
        Err(Viol { prop: "C15".into(), sig: "C15:count_after_drain".into(), text: "stat and resident set disagree after drain".into(), replay: json!({"kind": "c15", "case": case.to_json()}) })
    } else {
        Ok(resident.len() as u64)
    };
    st.close();
    res
}

/// Observer that also drains at idle points at the end of the run (C15's last clause, live store).
pub struct C15Final;

pub fn run_shard(ctx: &mut Ctx) {
    let mut r = Rng::new(ctx.shard_seed());
    let quick_n = 120u64;
    let mut h = 0u64;
    let is07 = ctx.prop == "C07";
    if is07 {
        ctx.begin_phase(0.15);
        full_queue_rounds(ctx, &mut r);
        ctx.end_phase();
        // records of 130-600 kB in closed chunks read by several threads at once
        ctx.begin_phase(0.2);
        let n = if ctx.tier == Tier::Quick { 2 } else { 200 };
        for _ in 0..n {
            if !ctx.time_left() {
                break;
            }
            match crate::props::bigread::round(r.next()) {
                Ok((reads, bytes)) => {
                    ctx.out.count("large_record_rounds", 1);
                    ctx.out.count("large_record_concurrent_reads_checked", reads);
                    ctx.out.count("large_record_bytes_read_back", bytes);
                }
                Err(vi) => ctx.out.viol(vi),
            }
        }
        ctx.end_phase();
    } else {
        // stat() on reader threads while another thread drains the cache: every snapshot must be internally consistent
        ctx.begin_phase(0.1);
        let n = if ctx.tier == Tier::Quick { 6 } else { 300 };
        for _ in 0..n {
            if !ctx.time_left() {
                break;
            }
            let (n, vi) = crate::props::seq::torn_stat_round(r.next());
            if let Some(vi) = vi {
                ctx.out.viol(vi);
            }
            ctx.out.count("concurrent_stat_rounds(2_stat_threads+drainer,25_cycles)", 1);
            ctx.out.count("stat_snapshots_checked_for_internal_consistency", n);
        }
        ctx.end_phase();
        // a Types instantiation whose payload_size() is the payload's CAPACITY (not invariant under clone())
        ctx.begin_phase(0.1);
        let n = if ctx.tier == Tier::Quick { 20 } else { 2000 };
        for _ in 0..n {
            if !ctx.time_left() {
                break;
            }
            match crate::props::pvote::capacity_accounting_round(r.next()) {
                Ok(k) => ctx.out.count("accounting_observations_under_a_capacity_based_payload_size", k),
                Err(vi) => ctx.out.viol(vi),
            }
        }
        ctx.end_phase();
        // chunks far larger than the cache limits: the boundary jumps over a whole chunk at once
        ctx.begin_phase(0.15);
        let n = if ctx.tier == Tier::Quick { 4 } else { 400 };
        for _ in 0..n {
            if !ctx.time_left() {
                break;
            }
            match crate::props::bigchunk::round(r.next()) {
                Ok((obs, jump)) => {
                    ctx.out.count("large_chunk_rounds", 1);
                    ctx.out.count("large_chunk_observations", obs);
                    ctx.out.tag("largest_boundary_jump(entries_becoming_evictable_at_once)", &format!("{:04}", jump));
                }
                Err(vi) => ctx.out.viol(vi),
            }
        }
        ctx.end_phase();
        ctx.begin_phase(0.2);
        // accounting along walks in which update_state moves last/purged back and forth, so that log ids that are
        // still resident are appended again, truncated, purged and replayed by restarts (no specification needed:
        // the rule compares stat() with the resident set)
        let n = if ctx.tier == Tier::Quick { 100 } else { 20_000 };
        for _ in 0..n {
            if !ctx.time_left() {
                break;
            }
            let (ws, _, a) = crate::props::c16walk::walk2(r.next());
            ctx.out.count("walk:walks", 1);
            ctx.out.count("walk:accounting_observations", ws.accounting_observations);
            ctx.out.count("walk:update_state_calls", ws.update_states);
            ctx.out.count("walk:appends_of_an_id_appended_before", ws.reappended_resident_ids);
            if let Some(a) = a {
                ctx.out.viol(a);
            }
        }
        ctx.end_phase();
    }
    loop {
        if ctx.tier == Tier::Quick && h >= quick_n {
            break;
        }
        if !ctx.time_left() {
            break;
        }
        let case = gen_case(r.next(), h + ctx.shard as u64 * 1_000_000, &ctx.prop.clone());
        h += 1;
        ctx.out.evaluations += 1;
        let dir = util::fresh_dir("cache");
        if is07 {
            let mut obs = C07Obs::new(&case, r.next());
            let res = sched::run(&case, &mut obs, &dir);
            ctx.out.count("reads_checked", obs.reads);
            ctx.out.count("snapshot_iterations_checked", obs.iters);
            ctx.out.count("entries_read", obs.entries);
            ctx.out.count("concurrent_reader_results_checked", obs.reader_results);
            ctx.out.count("held_snapshots_iterated_later", obs.held_iterated);
            ctx.out.count("eviction_boundary_checks_after_sync", obs.boundary_checks);
            for (k, n) in &obs.points {
                ctx.out.count(&format!("read_point:worker_{}", k), *n);
            }
            match res {
                Ok(rr) => {
                    ctx.out.count("cache_misses_served_from_disk", obs.miss_seen);
                    ctx.out.count("pread_calls", rr.trace.pread_calls);
                    ctx.out.count("worker_stall_points", rr.stall_points);
                    if obs.miss_seen > 0 {
                        ctx.out.distinct.insert(sched::interleaving_hash(&rr.trace) ^ util::hash_str(&case.hist.cfg.to_json().to_string()));
                    }
                    ctx.out.tag("cache_limits(max_items,capacity)", &format!("{:?},{:?}", case.hist.cfg.max_items, case.hist.cfg.capacity));
                    if h == 1 {
                        ctx.out.sample(json!({"config": case.hist.cfg.to_json(), "ops": crate::genr::steps_brief(&case.hist.steps), "schedule": case.sched, "reader_steps": case.reader_steps, "read_points": obs.points}));
                    }
                    // restart after a crash under the same tiny limits (histories without the D7 pattern only)
                    if obs.max_removed.is_none() || !case.hist.tags.iter().any(|t| t == "lower_term_reappend" || t == "first_index_nonzero") {
                        reads_after_crash_restart(&case, &rr, &mut r, &mut ctx.out);
                    }
                }
                Err(RunErr::Viol(v)) => ctx.out.viol(v),
                Err(RunErr::Inconclusive(s)) => ctx.out.inconclusive.push(s),
            }
        } else {
            let mut obs = C15Obs::new(&case);
            let res = sched::run(&case, &mut obs, &dir);
            ctx.out.count("cache_observations", obs.observations);
            ctx.out.count("observations_over_limit_after_append", obs.over_limit_observations);
            ctx.out.count("pinned_entries_seen_over_limit", obs.over_limit_pinned_entries);
            ctx.out.count("live_drain_checks", obs.drains);
            ctx.out.count("drain_calls_made_while_3_reader_threads_were_reading", obs.drains_with_readers);
            match res {
                Ok(rr) => {
                    ctx.out.count("worker_stall_points", rr.stall_points);
                    if obs.observations > 10 {
                        ctx.out.distinct.insert(sched::interleaving_hash(&rr.trace) ^ util::hash_str(&case.hist.cfg.to_json().to_string()));
                    }
                    ctx.out.tag("cache_limits(max_items,capacity)", &format!("{:?},{:?}", case.hist.cfg.max_items, case.hist.cfg.capacity));
                    match final_drain_check(&case, &dir, &rr.final_cfg) {
                        Ok(n) => {
                            ctx.out.count("drain_checks", 1);
                            ctx.out.count("resident_after_drain", n);
                        }
                        Err(v) => ctx.out.viol(v),
                    }
                    if h == 1 {
                        ctx.out.sample(json!({"config": case.hist.cfg.to_json(), "ops": crate::genr::steps_brief(&case.hist.steps), "schedule": case.sched, "max_resident_entries": obs.max_resident}));
                    }
                }
                Err(RunErr::Viol(v)) => ctx.out.viol(v),
                Err(RunErr::Inconclusive(s)) => ctx.out.inconclusive.push(s),
            }
        }
        util::remove_dir(&dir);
    }
}

pub fn full_queue_rounds(ctx: &mut Ctx, r: &mut Rng) {
    let n = if ctx.tier == Tier::Quick { 2 } else { 30 };
    let (t0, b) = (ctx.t0, ctx.budget_s);
    let dl = ctx.phase_deadline.min(t0 + b);
    crate::props::maxbatch::run(&mut ctx.out, n, r, &|| util::now_s() < dl);
}

pub fn replay(vj: &serde_json::Value, is07: bool) -> Option<Viol> {
    let case = SchedCase::from_json(&vj["case"])?;
    let dir = util::fresh_dir("cache");
    let res = if is07 {
        let mut obs = C07Obs::new(&case, 1);
        match sched::run(&case, &mut obs, &dir) {
            Ok(rr) => {
                let mut out = crate::frame::ShardOut::default();
                for seed in 1..6 {
                    let mut r = Rng::new(seed);
                    reads_after_crash_restart(&case, &rr, &mut r, &mut out);
                }
                util::remove_dir(&dir);
                return out.viols.into_iter().next();
            }
            Err(e) => Err(e),
        }
    } else {
        let mut obs = C15Obs::new(&case);
        sched::run(&case, &mut obs, &dir).map(|_| ())
    };
    util::remove_dir(&dir);
    match res {
        Ok(()) => None,
        Err(RunErr::Viol(v)) => Some(v),
        Err(RunErr::Inconclusive(s)) => {
            eprintln!("inconclusive: {}", s);
            None
        }
    }
}
