//! A second `Types` instantiation whose vote is only PARTIALLY ordered (same term, different
//! candidate = incomparable), as in Raft implementations with per-candidate votes. Serves C06
//! (an incomparable vote is refused and leaves no trace) and C16 (no panic), which the tuple
//! votes of the main harness types cannot exercise.

use std::cmp::Ordering;
use std::io;

use raft_log::api::raft_log_writer::RaftLogWriter;
use raft_log::codeq::{Decode, Encode};
use raft_log::{RaftLog, Types};
use serde_json::json;

use crate::frame::{Ctx, Viol};
use crate::store::{AckCb, CfgSpec, guarded};
use crate::util::{self, Rng};

#[derive(Debug, Clone, PartialEq, Eq)]
pub struct PVote {
    pub term: u64,
    pub node: u64,
    pub committed: bool,
}

impl PartialOrd for PVote {
    fn partial_cmp(&self, o: &Self) -> Option<Ordering> {
        match self.term.cmp(&o.term) {
            Ordering::Equal => {
                if self.node == o.node {
                    Some(self.committed.cmp(&o.committed))
                } else {
                    None
                }
            }
            x => Some(x),
        }
    }
}

impl Encode for PVote {
    fn encode<W: io::Write>(&self, mut w: W) -> Result<usize, io::Error> {
        let mut n = self.term.encode(&mut w)?;
        n += self.node.encode(&mut w)?;
        n += (self.committed as u8).encode(&mut w)?;
        Ok(n)
    }
}

impl Decode for PVote {
    fn decode<R: io::Read>(mut r: R) -> Result<Self, io::Error> {
        let term = u64::decode(&mut r)?;
        let node = u64::decode(&mut r)?;
        let c = u8::decode(&mut r)?;
        // An application-level validity check that reports with its own error kind (neither UnexpectedEof nor
        // InvalidData), as a real Vote type may: candidate ids start at 1. A zero-filled tail decodes as a SaveVote record
        // (record type 0) and reaches this check.
        if node == 0 {
            return Err(io::Error::other("PVote: node id must not be 0"));
        }
        Ok(PVote { term, node, committed: c != 0 })
    }
}

#[derive(Debug, Clone, PartialEq, Eq, Default)]
pub struct PV;

impl Types for PV {
    type LogId = (u64, u64);
    type LogPayload = String;
    type Vote = PVote;
    type Callback = AckCb;
    type UserData = String;
    fn log_index(log_id: &Self::LogId) -> u64 {
        log_id.1
    }
    fn payload_size(payload: &Self::LogPayload) -> u64 {
        payload.len() as u64
    }
}

/// Third instantiation: `payload_size()` is the payload's capacity, which `clone()` does not preserve. The cache
/// must account for what it actually stores.
#[derive(Debug, Clone, PartialEq, Eq, Default)]
pub struct PC;

impl Types for PC {
    type LogId = (u64, u64);
    type LogPayload = String;
    type Vote = (u64, u64);
    type Callback = AckCb;
    type UserData = String;
    fn log_index(log_id: &Self::LogId) -> u64 {
        log_id.1
    }
    fn payload_size(payload: &Self::LogPayload) -> u64 {
        payload.capacity() as u64
    }
}

/// C15 under `PC`: after every call stat()'s item count / byte size equal the number / total `payload_size()` of the
/// resident payloads (hook H1 measures the stored values). Returns the number of observations.
pub fn capacity_accounting_round(seed: u64) -> Result<u64, Viol> {
    let mut r = Rng::new(seed);
    let dir = util::fresh_dir("pcap");
    let cfg = CfgSpec { max_records: Some(*r.pick(&[3usize, 5, 1000])), read_buf: Some(64), max_items: *r.pick(&[None, Some(2usize), Some(5)]), ..Default::default() };
    let mk = |sig: &str, text: String| Viol { prop: "C15".into(), sig: format!("C15:{}", sig), text, replay: json!({"kind": "pcap", "seed": seed.to_string()}) };
    let res = (|| -> Result<u64, Viol> {
        let mut rl = RaftLog::<PC>::open(cfg.to_config(&dir)).map_err(|e| mk("pcap_open", e.to_string()))?;
        let mut obs = 0u64;
        let mut next = 0u64;
        for step in 0..r.range(10, 30) {
            match r.below(6) {
                0 if next > 2 => {
                    let ix = next - 1 - r.below(2);
                    if rl.truncate(ix).is_ok() {
                        next = ix;
                    }
                }
                1 if next > 3 => {
                    let _ = rl.purge((1, r.below(next)));
                }
                2 => {
                    let fid = crate::trace::next_flush_id();
                    let _ = rl.flush(Some(AckCb::new(fid)));
                    let _ = crate::trace::wait_ack(fid, 60_000);
                    rl.wait_worker_idle();
                }
                _ => {
                    // payloads with spare capacity: what the caller hands in weighs more than the clone that is cached
                    let mut p = String::with_capacity(*r.pick(&[16usize, 64, 1000, 40_000]));
                    p.push_str(&format!("pc{}", step));
                    if rl.append(vec![((1, next), p)]).is_ok() {
                        next += 1;
                    }
                }
            }
            let s = rl.stat();
            let (_, resident) = rl.verif_cache_resident();
            let bytes: u64 = resident.iter().map(|x| x.1).sum();
            obs += 1;
            if s.payload_cache_item_count != resident.len() as u64 || s.payload_cache_size != bytes {
                return Err(mk("size:capacity_based_payload_size", format!("payload_size() = capacity: stat reports {} items / {} bytes, the resident payloads are {} / {} bytes", s.payload_cache_item_count, s.payload_cache_size, resident.len(), bytes)));
            }
        }
        Ok(obs)
    })();
    util::remove_dir(&dir);
    res
}

pub fn replay_pcap(vj: &serde_json::Value) -> Option<Viol> {
    let seed: u64 = vj["seed"].as_str()?.parse().ok()?;
    capacity_accounting_round(seed).err()
}

/// Fourth instantiation: the crate's built-in callback type, `SyncSender<Result<(), io::Error>>`.
#[derive(Debug, Clone, PartialEq, Eq, Default)]
pub struct SC;

impl Types for SC {
    type LogId = (u64, u64);
    type LogPayload = String;
    type Vote = (u64, u64);
    type Callback = std::sync::mpsc::SyncSender<Result<(), io::Error>>;
    type UserData = String;
    fn log_index(log_id: &Self::LogId) -> u64 {
        log_id.1
    }
    fn payload_size(payload: &Self::LogPayload) -> u64 {
        payload.len() as u64
    }
}

/// C04 "exactly once" for the built-in channel callback: k flushes hand clones of ONE bounded sender (capacity 1
/// or 2) to the store and the receiver reads late, after the worker has gone idle or is blocked delivering. Every flush
/// must be answered exactly once, in order, whatever the capacity of the caller's channel. Returns the number of
/// callbacks received.
pub fn shared_channel_round(seed: u64) -> Result<u64, Viol> {
    let mut r = Rng::new(seed);
    let dir = util::fresh_dir("sccb");
    let cfg = CfgSpec { max_records: Some(*r.pick(&[3usize, 1000])), read_buf: Some(64), ..Default::default() };
    let mk = |sig: &str, text: String| Viol { prop: "C04".into(), sig: format!("C04:{}", sig), text, replay: json!({"kind": "sccb", "seed": seed.to_string()}) };
    let res = (|| -> Result<u64, Viol> {
        let mut rl = RaftLog::<SC>::open(cfg.to_config(&dir)).map_err(|e| mk("sccb_open", e.to_string()))?;
        let cap = *r.pick(&[1usize, 2]);
        let k = r.range(3, 8);
        let (tx, rx) = std::sync::mpsc::sync_channel::<Result<(), io::Error>>(cap);
        for i in 0..k {
            rl.append(vec![((1, i), format!("sc{}", i))]).map_err(|e| mk("sccb_write", e.to_string()))?;
            rl.flush(Some(tx.clone())).map_err(|e| mk("flush_call_failed", e.to_string()))?;
        }
        drop(tx);
        // read late: give the worker time to run into the full channel
        std::thread::sleep(std::time::Duration::from_millis(r.below(30)));
        let mut got = 0u64;
        loop {
            match rx.recv_timeout(std::time::Duration::from_secs(60)) {
                Ok(Ok(())) => got += 1,
                Ok(Err(e)) => return Err(mk("ack_err_without_fault", format!("a callback reported {} although no fault was injected", e))),
                // every sender clone is gone: the worker has answered (or dropped) all of them
                Err(std::sync::mpsc::RecvTimeoutError::Disconnected) => break,
                Err(std::sync::mpsc::RecvTimeoutError::Timeout) => return Ok(0), // not judged
            }
        }
        if got != k {
            return Err(mk("ack_missing:shared_bounded_channel", format!("{} flushes handed clones of one bounded channel (capacity {}) to the store as callbacks; only {} results arrived although no I/O error occurred", k, cap, got)));
        }
        Ok(got)
    })();
    util::remove_dir(&dir);
    res
}

pub fn replay_sccb(vj: &serde_json::Value) -> Option<Viol> {
    let seed: u64 = vj["seed"].as_str()?.parse().ok()?;
    (0..10).find_map(|_| shared_channel_round(seed).err())
}

fn accepts(cur: &Option<PVote>, new: &PVote) -> bool {
    match cur {
        None => true,
        Some(c) => matches!(new.partial_cmp(c), Some(Ordering::Greater | Ordering::Equal)),
    }
}

fn v(prop: &str, sig: &str, text: String, seed: u64) -> Viol {
    Viol { prop: prop.into(), sig: format!("{}:{}", prop, sig), text, replay: json!({"kind": "pvote", "seed": seed.to_string()}) }
}

/// One history. Returns (calls, incomparable votes tried) or the first violation.
pub fn run_one(seed: u64) -> Result<(u64, u64), Viol> {
    let mut r = Rng::new(seed);
    let dir = util::fresh_dir("pvote");
    let cfg = CfgSpec { max_records: Some(*r.pick(&[2usize, 3, 5, 1000])), read_buf: Some(64), ..Default::default() };
    let res = (|| -> Result<(u64, u64), Viol> {
        let mut rl = RaftLog::<PV>::open(cfg.to_config(&dir)).map_err(|e| v("C01", "pvote_open", e.to_string(), seed))?;
        let mut cur: Option<PVote> = None;
        let mut calls = 0u64;
        let mut incomparable = 0u64;
        let mut next_index = 0u64;
        let n = r.range(8, 30);
        for _ in 0..n {
            if r.chance(1, 5) {
                let _ = rl.append(vec![((1, next_index), format!("e{}", next_index))]);
                next_index += 1;
                continue;
            }
            let base = cur.clone().unwrap_or(PVote { term: 1, node: 1, committed: false });
            let cand = match r.below(6) {
                0 => PVote { term: base.term, node: base.node + 1 + r.below(2), committed: r.chance(1, 2) }, // incomparable
                1 => PVote { term: base.term, node: base.node, committed: true },
                2 => PVote { term: base.term, node: base.node, committed: false },
                3 => PVote { term: base.term + 1, node: 1 + r.below(4), committed: false },
                4 => PVote { term: base.term.saturating_sub(1), node: 1 + r.below(4), committed: true },
                _ => base.clone(),
            };
            let want = accepts(&cur, &cand);
            if let Some(c) = &cur {
                if cand.partial_cmp(c).is_none() {
                    incomparable += 1;
                }
            }
            let before_end = rl.stat().open_chunk.global_end;
            let before_vote = rl.log_state().vote().cloned();
            calls += 1;
            let out = guarded(|| rl.save_vote(cand.clone()));
            let out = match out {
                Err(p) => return Err(v("C16", &format!("panic:save_vote_partial_order:{}", p.rsplit(" @ ").next().unwrap_or("?")), format!("save_vote({:?}) with current vote {:?} panicked: {}", cand, cur, p), seed)),
                Ok(o) => o,
            };
            match (want, out.is_ok()) {
                (true, true) => cur = Some(cand),
                (false, false) => {
                    let after_end = rl.stat().open_chunk.global_end;
                    let after_vote = rl.log_state().vote().cloned();
                    if after_end != before_end || after_vote != before_vote {
                        return Err(v("C06", "trace_left:vote_partial_order", format!("refused save_vote({:?}) (current {:?}) changed journal end {} -> {} / vote {:?} -> {:?}", cand, cur, before_end, after_end, before_vote, after_vote), seed));
                    }
                }
                (false, true) => return Err(v("C06", "rejected_call_returned_ok:vote_not_greater_or_equal", format!("save_vote({:?}) was accepted although the current vote {:?} is not <= it (partial order: {:?})", cand, cur, cand.partial_cmp(cur.as_ref().unwrap())), seed)),
                (true, false) => return Err(v("C01", "accepted_write_refused:vote_partial_order", format!("save_vote({:?}) refused with current vote {:?}", cand, cur), seed)),
            }
            if rl.log_state().vote().cloned() != cur {
                return Err(v("C01", "state_mismatch:vote_partial_order", format!("vote {:?} != model {:?}", rl.log_state().vote(), cur), seed));
            }
        }
        // flush, restart: the store must open and show the same vote
        let fid = crate::trace::next_flush_id();
        let _ = rl.flush(Some(AckCb::new(fid)));
        let _ = crate::trace::wait_ack(fid, 10_000);
        rl.wait_worker_idle();
        drop(rl);
        let rl2 = RaftLog::<PV>::open(cfg.to_config(&dir)).map_err(|e| v("C06", "reopen_failed:vote_partial_order", format!("open after flush: {}", e), seed))?;
        if rl2.log_state().vote().cloned() != cur {
            return Err(v("C06", "state_changed_by_restart:vote_partial_order", format!("vote after restart {:?} != {:?}", rl2.log_state().vote(), cur), seed));
        }
        Ok((calls, incomparable))
    })();
    util::remove_dir(&dir);
    res
}

/// C10 with this Types instantiation: the newest chunk gets a zero-filled tail (from a record boundary) of various
/// lengths; open must succeed, show exactly what was written and cut the file back. Returns the number of images.
pub fn zero_tail_round(seed: u64) -> Result<u64, Viol> {
    let mut r = Rng::new(seed);
    let dir = util::fresh_dir("pvtail");
    let cfg = CfgSpec { max_records: Some(*r.pick(&[3usize, 5, 1000])), read_buf: Some(*r.pick(&[1usize, 64, 4096])), ..Default::default() };
    let mk = |sig: &str, text: String| Viol { prop: "C10".into(), sig: format!("C10:{}", sig), text, replay: json!({"kind": "pvtail", "seed": seed.to_string()}) };
    let res = (|| -> Result<u64, Viol> {
        let mut rl = RaftLog::<PV>::open(cfg.to_config(&dir)).map_err(|e| mk("pvote_open", e.to_string()))?;
        let mut vote = PVote { term: 1, node: 1 + r.below(3), committed: false };
        let mut entries: Vec<((u64, u64), String)> = vec![];
        for i in 0..r.range(3, 9) {
            if r.chance(1, 3) {
                vote = PVote { term: vote.term + 1, node: 1 + r.below(3), committed: r.chance(1, 2) };
                rl.save_vote(vote.clone()).map_err(|e| mk("pvote_write", e.to_string()))?;
            } else {
                let id = (1, entries.len() as u64);
                let p = format!("pv{}", i);
                rl.append(vec![(id, p.clone())]).map_err(|e| mk("pvote_write", e.to_string()))?;
                entries.push((id, p));
            }
        }
        let want_vote = rl.log_state().vote().cloned();
        let fid = crate::trace::next_flush_id();
        let _ = rl.flush(Some(AckCb::new(fid)));
        let _ = crate::trace::wait_ack(fid, 60_000);
        rl.wait_worker_idle();
        drop(rl);
        let files = crate::store::list_chunks(&dir);
        let Some((_, newest)) = files.last().cloned() else { return Ok(0) };
        let clean = std::fs::read(&newest).map_err(|e| mk("io", e.to_string()))?;
        let mut n_images = 0;
        for zeros in [21usize, 28, 29, 64, 1024, 1025, 70_000] {
            let mut b = clean.clone();
            b.extend(std::iter::repeat(0u8).take(zeros));
            std::fs::write(&newest, &b).map_err(|e| mk("io", e.to_string()))?;
            n_images += 1;
            let opened = guarded(|| RaftLog::<PV>::open(cfg.to_config(&dir)));
            match opened {
                Err(p) => return Err(mk(&format!("open_panic:{}", p.rsplit(" @ ").next().unwrap_or("?")), format!("zero tail of {} bytes (vote type with its own validity check): open panicked: {}", zeros, p))),
                Ok(Err(e)) => return Err(mk("open_refused", format!("newest chunk followed by {} zero bytes from a record boundary, vote type whose decoder rejects an all-zero vote with its own error kind: open refused: {}", zeros, e))),
                Ok(Ok(rl2)) => {
                    let got: Result<Vec<_>, _> = rl2.read(0, u64::MAX).collect();
                    let got = got.map_err(|e| mk("read_error_after_recovery", e.to_string()))?;
                    if rl2.log_state().vote().cloned() != want_vote || got != entries {
                        return Err(mk("recovered_state_differs", format!("zero tail of {} bytes: recovered vote {:?} / {} entries, written {:?} / {}", zeros, rl2.log_state().vote(), got.len(), want_vote, entries.len())));
                    }
                    drop(rl2);
                    let after = std::fs::read(&newest).unwrap_or_default();
                    if after != clean {
                        return Err(mk("tail_not_removed", format!("zero tail of {} bytes: the file is {} bytes after recovery (clean length {})", zeros, after.len(), clean.len())));
                    }
                    // restore the clean file for the next length (recovery may have started a new chunk)
                    for (_, p) in crate::store::list_chunks(&dir) {
                        if !files.iter().any(|(_, q)| *q == p) {
                            let _ = std::fs::remove_file(p);
                        }
                    }
                }
            }
        }
        Ok(n_images)
    })();
    util::remove_dir(&dir);
    res
}

pub fn replay_tail(vj: &serde_json::Value) -> Option<Viol> {
    let seed: u64 = vj["seed"].as_str()?.parse().ok()?;
    zero_tail_round(seed).err()
}

pub fn run(ctx: &mut Ctx, histories: u64, r: &mut Rng) {
    for _ in 0..histories {
        if !ctx.time_left() {
            break;
        }
        let seed = r.next();
        match run_one(seed) {
            Ok((c, i)) => {
                ctx.out.count("partial_order_vote:save_vote_calls", c);
                ctx.out.count("partial_order_vote:incomparable_votes_tried", i);
            }
            Err(vi) => ctx.out.viol(vi),
        }
        ctx.out.count("partial_order_vote:histories", 1);
    }
}

pub fn replay(vj: &serde_json::Value) -> Option<Viol> {
    let seed: u64 = vj["seed"].as_str()?.parse().ok()?;
    run_one(seed).err()
}
