//! C13, further rounds.
//!
//! * `other_process_round`: the owner is ANOTHER process; this process is refused, the owner process exits, and
//!   this process must then be able to open (an attempt that was refused must not leave anything behind in the
//!   refused process).
//! * `alias_round`: the same directory reached under other spellings of its path (a symlink to it, `dir/.`,
//!   `dir//`, a relative detour): ownership is a property of the directory, not of the string.
//! * `dead_worker_round`: the owner's background worker ends on an injected I/O error while the owner object
//!   stays alive: the directory must stay owned (every further attempt refused) until the owner is dropped.

use raft_log::{Dump, RaftLog};
use serde_json::json;

use crate::frame::Viol;
use crate::props::image::CleanImage;
use crate::store::{self, CfgSpec, Op, Store, V, guarded};
use crate::trace::{self, Fault, FaultAction, Role, Sk};
use crate::util;

fn v(sig: &str, text: String, replay: serde_json::Value) -> Viol {
    Viol { prop: "C13".into(), sig: format!("C13:{}", sig), text, replay }
}

/// Ok(true) = became owner (dropped again at once), Ok(false) = refused, Err = panic text
fn try_open(dir: &str, cfg: &CfgSpec, as_dump: bool) -> Result<bool, String> {
    let c = cfg.to_config(dir);
    guarded(|| if as_dump { Dump::<V>::new(c).map(|_| ()).is_ok() } else { RaftLog::<V>::open(c).map(|_| ()).is_ok() })
}

/// Child process body: `rlmon c13-hold <dir> <cfg-json> <ready-file> <release-file>`: open, signal, hold until released.
pub fn hold_main(args: &[String]) -> i32 {
    let dir = &args[2];
    let cfg = CfgSpec::from_json(&serde_json::from_str(&args[3]).unwrap_or(json!({})));
    let ready = &args[4];
    let release = &args[5];
    let rl = match RaftLog::<V>::open(cfg.to_config(dir)) {
        Ok(r) => r,
        Err(_) => {
            let _ = std::fs::write(format!("{}.tmp", ready), "refused");
            let _ = std::fs::rename(format!("{}.tmp", ready), ready);
            return 3;
        }
    };
    // (written under another name first: the parent must never see the file without its content)
    let _ = std::fs::write(format!("{}.tmp", ready), "owner");
    let _ = std::fs::rename(format!("{}.tmp", ready), ready);
    let t0 = util::now_s();
    while !std::path::Path::new(release).exists() && util::now_s() - t0 < 60.0 {
        std::thread::sleep(std::time::Duration::from_millis(1));
    }
    drop(rl);
    0
}

pub fn other_process_round(ci: &CleanImage, refused_attempts: u32) -> Result<Option<Viol>, String> {
    let dir = util::fresh_dir("c13o");
    store::write_image(&dir, &ci.img);
    let ctl = util::fresh_dir("c13octl");
    let ready = format!("{}/ready", ctl);
    let release = format!("{}/release", ctl);
    let exe = std::env::current_exe().map_err(|e| e.to_string())?;
    let mut child = std::process::Command::new(&exe)
        .args(["c13-hold", &dir, &ci.cfg.to_json().to_string(), &ready, &release])
        .stdout(std::process::Stdio::null())
        .stderr(std::process::Stdio::null())
        .spawn()
        .map_err(|e| e.to_string())?;
    let cleanup = |child: &mut std::process::Child| {
        let _ = std::fs::write(&release, "x");
        let _ = child.wait();
        util::remove_dir(&dir);
        util::remove_dir(&ctl);
    };
    let t0 = util::now_s();
    while !std::path::Path::new(&ready).exists() {
        if util::now_s() - t0 > 30.0 {
            let _ = child.kill();
            cleanup(&mut child);
            return Err("owner process did not come up".into());
        }
        std::thread::sleep(std::time::Duration::from_millis(1));
    }
    if std::fs::read_to_string(&ready).unwrap_or_default() != "owner" {
        cleanup(&mut child);
        return Err("owner process could not open the directory".into());
    }
    let replay = json!({"kind": "c13", "mode": "other_process"});
    let mut res = None;
    for k in 0..refused_attempts {
        match try_open(&dir, &ci.cfg, k % 2 == 1) {
            Ok(false) => {}
            Ok(true) => {
                res = Some(v("two_owners", "this process opened the directory while another process owned it".into(), replay.clone()));
                break;
            }
            Err(p) => {
                res = Some(v("panic_in_open", p, replay.clone()));
                break;
            }
        }
    }
    // the owner process exits
    let _ = std::fs::write(&release, "x");
    let st = child.wait().map_err(|e| e.to_string())?;
    if !st.success() {
        util::remove_dir(&dir);
        util::remove_dir(&ctl);
        return Err(format!("owner process exited with {:?}", st.code()));
    }
    if res.is_none() {
        for as_dump in [false, true] {
            match try_open(&dir, &ci.cfg, as_dump) {
                Ok(true) => {}
                Ok(false) => {
                    res = Some(v(
                        "still_refused_after_owner_process_exited",
                        format!("the owning process has exited; this process, which had been refused {} time(s) while it was alive, still cannot open the directory ({})", refused_attempts, if as_dump { "Dump" } else { "RaftLog" }),
                        replay.clone(),
                    ));
                    break;
                }
                Err(p) => {
                    res = Some(v("panic_in_open", p, replay.clone()));
                    break;
                }
            }
        }
    }
    util::remove_dir(&dir);
    util::remove_dir(&ctl);
    Ok(res)
}

/// Returns (violation, attempts made through alias paths).
pub fn alias_round(ci: &CleanImage) -> Result<(Option<Viol>, u64), String> {
    let dir = util::fresh_dir("c13a");
    store::write_image(&dir, &ci.img);
    let link = format!("{}-alias", dir);
    let _ = std::fs::remove_file(&link);
    std::os::unix::fs::symlink(&dir, &link).map_err(|e| e.to_string())?;
    let base = std::path::Path::new(&dir).file_name().map(|s| s.to_string_lossy().to_string()).unwrap_or_default();
    let spellings = vec![dir.clone(), link.clone(), format!("{}/.", dir), format!("{}//", dir), format!("{}/../{}", dir, base), format!("{}/", link)];
    let replay = json!({"kind": "c13", "mode": "alias"});
    let mut res = None;
    let mut n = 0u64;
    'outer: for owner_path in &spellings {
        for owner_is_dump in [false, true] {
            let c = ci.cfg.to_config(owner_path);
            // hold an owner under one spelling
            let owner: Result<Result<Box<dyn std::any::Any>, String>, String> = guarded(|| {
                if owner_is_dump {
                    Dump::<V>::new(c).map(|d| Box::new(d) as Box<dyn std::any::Any>).map_err(|e| e.to_string())
                } else {
                    RaftLog::<V>::open(c).map(|d| Box::new(d) as Box<dyn std::any::Any>).map_err(|e| e.to_string())
                }
            });
            let owner = match owner {
                Ok(Ok(o)) => o,
                Ok(Err(e)) => {
                    res = Some(v("open_failed_under_alias", format!("nobody owns the directory, open through the path spelling {:?} fails: {}", owner_path, e), replay.clone()));
                    break 'outer;
                }
                Err(p) => {
                    res = Some(v("panic_in_open", p, replay.clone()));
                    break 'outer;
                }
            };
            for other in &spellings {
                for as_dump in [false, true] {
                    n += 1;
                    match try_open(other, &ci.cfg, as_dump) {
                        Ok(false) => {}
                        Ok(true) => {
                            res = Some(v(
                                "two_owners:same_directory_under_another_path",
                                format!("a {} owns the directory opened as {:?}; a {} of the same directory opened as {:?} succeeded", if owner_is_dump { "Dump" } else { "RaftLog" }, owner_path, if as_dump { "Dump" } else { "RaftLog" }, other),
                                replay.clone(),
                            ));
                            drop(owner);
                            break 'outer;
                        }
                        Err(p) => {
                            res = Some(v("panic_in_open", p, replay.clone()));
                            drop(owner);
                            break 'outer;
                        }
                    }
                }
            }
            drop(owner);
        }
    }
    // nothing may be left behind next to the directory either
    let _ = std::fs::remove_file(&link);
    let after = store::read_image(&dir);
    if res.is_none() && after != ci.img {
        res = Some(v("chunk_files_changed", "chunk files differ after the alias round".into(), replay));
    }
    util::remove_dir(&dir);
    Ok((res, n))
}

/// Returns (violation, refused attempts made while the owner's worker was gone).
pub fn dead_worker_round(seed: u64) -> Result<(Option<Viol>, u64), String> {
    let dir = util::fresh_dir("c13d");
    let mut r = util::Rng::new(seed);
    // the worker's n-th write / unlink fails: the worker thread ends, the store object lives on
    let kind = *r.pick(&[Sk::Write, Sk::Write, Sk::Unlink]);
    let cfg = CfgSpec { max_records: Some(if kind == Sk::Unlink { 2 } else { *r.pick(&[2usize, 3, 50]) }), read_buf: Some(64), ..Default::default() };
    trace::reset_acks();
    trace::begin(&dir);
    let nth = if kind == Sk::Unlink { 0 } else { r.below(3) as u32 };
    trace::set_faults(vec![Fault { role: Role::Worker, kind, nth, action: FaultAction::Eio, fired: false }]);
    let replay = json!({"kind": "c13", "mode": "dead_worker", "seed": seed.to_string()});
    let res = (|| -> Result<(Option<Viol>, u64), String> {
        let mut st = Store::open(&dir, &cfg, 1).map_err(|o| format!("owner open: {}", o.brief()))?;
        let mut worker_tid = None;
        for i in 0..12u64 {
            let _ = st.write(&Op::Append(vec![((1, i), format!("dw-{}", i))]));
            if i == 5 {
                let _ = st.write(&Op::Purge((1, 3)));
            }
            let _ = st.flush(false);
            if trace::fired_faults() > 0 {
                break;
            }
            let _ = st.wait_idle(2_000);
        }
        if trace::fired_faults() == 0 {
            st.close();
            return Err("fault did not fire".into());
        }
        // find the worker thread in the trace and wait (bounded) until it is gone
        {
            let g = trace::lock();
            if let Some(t) = g.as_ref() {
                worker_tid = t.evs.iter().find(|e| e.role == Role::Worker).map(|e| e.tid);
            }
        }
        let t0 = util::now_s();
        let mut dead = false;
        while util::now_s() - t0 < 10.0 {
            if let Some(t) = worker_tid {
                if !trace::thread_alive(t) {
                    dead = true;
                    break;
                }
            }
            std::thread::sleep(std::time::Duration::from_millis(1));
        }
        if !dead {
            st.close();
            return Err("worker still alive after the injected fault".into());
        }
        let mut n = 0u64;
        let mut viol = None;
        for as_dump in [false, true, false] {
            n += 1;
            match try_open(&dir, &cfg, as_dump) {
                Ok(false) => {}
                Ok(true) => {
                    viol = Some(v(
                        "two_owners:owner_alive_worker_ended",
                        format!("the owner's background worker ended on an injected {:?} error; the owner object is still alive, yet a second {} opened the directory", kind, if as_dump { "Dump" } else { "RaftLog" }),
                        replay.clone(),
                    ));
                    break;
                }
                Err(p) => {
                    viol = Some(v("panic_in_open", p, replay.clone()));
                    break;
                }
            }
        }
        st.close();
        // and once the owner is dropped the directory can be taken again (Dump: it only reads)
        if viol.is_none() {
            if let Ok(false) = try_open(&dir, &cfg, true) {
                viol = Some(v("final_open_refused", "owner dropped after its worker had ended on an I/O error: Dump::new is still refused".into(), replay.clone()));
            }
        }
        Ok((viol, n))
    })();
    let _ = trace::end();
    util::remove_dir(&dir);
    res
}


/// The lock service fails for the contender (flock returns ENOLCK / EINTR / EIO instead of EWOULDBLOCK) while an
/// owner is alive: the attempt must still fail with an error ("every other attempt to open it fails"), whatever the
/// reason the lock could not be taken. Returns (violation, attempts made with a failing flock).
pub fn flock_fault_round(ci: &CleanImage) -> Result<(Option<Viol>, u64), String> {
    let dir = util::fresh_dir("c13l");
    store::write_image(&dir, &ci.img);
    let replay = json!({"kind": "c13", "mode": "flock_fault"});
    let owner = guarded(|| RaftLog::<V>::open(ci.cfg.to_config(&dir))).map_err(|p| p)?.map_err(|e| e.to_string())?;
    let mut res = None;
    let mut n = 0u64;
    for errno in [libc::ENOLCK, libc::EINTR, libc::EIO, libc::ENOSYS] {
        for as_dump in [false, true] {
            crate::shim::FLOCK_FAULT.with(|c| c.set(errno));
            let r = try_open(&dir, &ci.cfg, as_dump);
            crate::shim::FLOCK_FAULT.with(|c| c.set(0));
            n += 1;
            match r {
                Ok(false) => {}
                Ok(true) => {
                    res = Some(v("two_owners:lock_could_not_be_taken", format!("a RaftLog owns the directory; a second {} was opened although its flock() call failed with errno {}", if as_dump { "Dump" } else { "RaftLog" }, errno), replay.clone()));
                }
                Err(p) => res = Some(v("panic_in_open", p, replay.clone())),
            }
            if res.is_some() {
                break;
            }
        }
        if res.is_some() {
            break;
        }
    }
    drop(owner);
    util::remove_dir(&dir);
    Ok((res, n))
}

/// "Once the owner is dropped the next attempt succeeds" - also while a `dump_data()` snapshot taken from the
/// owner is still alive (a snapshot is a value, not an owner).
pub fn snapshot_outlives_owner_round(ci: &CleanImage) -> Result<Option<Viol>, String> {
    let dir = util::fresh_dir("c13s");
    store::write_image(&dir, &ci.img);
    let replay = json!({"kind": "c13", "mode": "snapshot_outlives_owner"});
    let mut owner = guarded(|| RaftLog::<V>::open(ci.cfg.to_config(&dir))).map_err(|p| p)?.map_err(|e| e.to_string())?;
    let mut snap = owner.dump_data();
    // the owner purges two thirds of its entries and has that flushed and acknowledged before it is dropped, so
    // that chunk files are removed while the snapshot (which was taken before) is alive
    {
        use raft_log::api::raft_log_writer::RaftLogWriter;
        if let Some((id, _)) = ci.entries.get(ci.entries.len() * 2 / 3) {
            if owner.purge(*id).is_ok() {
                let fid = trace::next_flush_id();
                let _ = owner.flush(Some(crate::store::AckCb::new(fid)));
                let _ = trace::wait_ack(fid, 60_000);
                owner.wait_worker_idle();
            }
        }
    }
    drop(owner);
    let mut res = None;
    // C14: the owner got its acknowledgement and was dropped - from now on only a new owner may change the directory.
    // A new owner is opened and kept; then the old instance's snapshot is dropped: no chunk file may appear or vanish.
    if let Ok(Ok(newer)) = guarded(|| RaftLog::<V>::open(ci.cfg.to_config(&dir))) {
        let before: Vec<u64> = store::list_chunks(&dir).into_iter().map(|c| c.0).collect();
        let s2 = std::mem::replace(&mut snap, newer.dump_data());
        drop(s2);
        let after: Vec<u64> = store::list_chunks(&dir).into_iter().map(|c| c.0).collect();
        if before != after {
            res = Some(Viol {
                prop: "C14".into(),
                sig: "C14:directory_changed_after_drop:by_dropping_a_snapshot_of_the_old_instance".into(),
                text: format!("the store was dropped after its last acknowledged flush and the directory re-opened; dropping a dump_data() snapshot of the OLD instance then changed the chunk files from {:?} to {:?} underneath the new instance", before, after),
                replay: replay.clone(),
            });
        }
        drop(newer);
    }
    for as_dump in [false, true] {
        if res.is_some() {
            break;
        }
        match try_open(&dir, &ci.cfg, as_dump) {
            Ok(true) => {}
            Ok(false) => {
                res = Some(v("still_locked_after_owner_dropped:snapshot_alive", format!("the owner was dropped; a dump_data() snapshot taken from it is still alive, and {} fails", if as_dump { "Dump::new" } else { "RaftLog::open" }), replay.clone()));
                break;
            }
            Err(p) => {
                res = Some(v("panic_in_open", p, replay.clone()));
                break;
            }
        }
    }
    // the snapshot is still usable
    let _ = guarded(|| snap.iter().count());
    drop(snap);
    util::remove_dir(&dir);
    Ok(res)
}


/// Several threads race to open a directory that does not hold anything yet. Exactly one wins; it writes and
/// flushes; when everybody is done its data must still be there (a refused opener must not "clean up" a directory it
/// found empty a moment ago). Returns (violation, refused attempts).
pub fn empty_dir_race_round(seed: u64) -> Result<(Option<Viol>, u64), String> {
    let dir = util::fresh_dir("c13e");
    let cfg = CfgSpec { max_records: Some(4), read_buf: Some(64), ..Default::default() };
    let nthreads = 2 + (seed % 5) as usize;
    let replay = json!({"kind": "c13", "mode": "empty_dir_race", "seed": seed.to_string()});
    let go = std::sync::atomic::AtomicBool::new(false);
    let winners = std::sync::atomic::AtomicU64::new(0);
    let refused = std::sync::atomic::AtomicU64::new(0);
    let problem: std::sync::Mutex<Option<(String, String)>> = std::sync::Mutex::new(None);
    {
        let (dir, cfg, go, winners, refused, problem) = (&dir, &cfg, &go, &winners, &refused, &problem);
        std::thread::scope(|sc| {
            for t in 0..nthreads {
                sc.spawn(move || {
                    while !go.load(std::sync::atomic::Ordering::Acquire) {
                        std::hint::spin_loop();
                    }
                    match guarded(|| RaftLog::<V>::open(cfg.to_config(dir))) {
                        Err(p) => *problem.lock().unwrap() = Some(("panic_in_open".into(), p)),
                        Ok(Err(_)) => {
                            refused.fetch_add(1, std::sync::atomic::Ordering::Relaxed);
                        }
                        Ok(Ok(mut rl)) => {
                            use raft_log::api::raft_log_writer::RaftLogWriter;
                            winners.fetch_add(1, std::sync::atomic::Ordering::Relaxed);
                            // (a later owner continues the log the earlier one left)
                            let base = rl.log_state().last().map(|l| l.1 + 1).unwrap_or(0);
                            for i in base..base + 6 {
                                if let Err(e) = rl.append(vec![((1, i), format!("winner-{}-{}", t, i))]) {
                                    *problem.lock().unwrap() = Some(("owner_disturbed".into(), format!("the winner of the race could not append: {}", e)));
                                    return;
                                }
                            }
                            let fid = crate::trace::next_flush_id();
                            let _ = rl.flush(Some(crate::store::AckCb::new(fid)));
                            let _ = crate::trace::wait_ack(fid, 60_000);
                            rl.wait_worker_idle();
                            // hold the directory until the losers have certainly finished their attempts
                            std::thread::sleep(std::time::Duration::from_millis(5));
                            drop(rl);
                        }
                    }
                });
            }
            go.store(true, std::sync::atomic::Ordering::Release);
        });
    }
    let mut res = problem.lock().unwrap().take().map(|(s, t)| v(&s, t, replay.clone()));
    let w = winners.load(std::sync::atomic::Ordering::Relaxed);
    if res.is_none() && w >= 1 {
        // every winner wrote 6 entries under its own tag; whoever owned the directory last, entries 0..6 of ONE owner
        // must be there (owners that came later continue the same log only if they opened it after the first was dropped)
        match guarded(|| RaftLog::<V>::open(cfg.to_config(&dir))) {
            Ok(Ok(rl)) => {
                let n = rl.read(0, u64::MAX).filter_map(|e| e.ok()).count();
                if (n as u64) < 6 * w {
                    res = Some(v("data_of_the_owner_lost:refused_opener_cleaned_up", format!("{} threads raced to open an empty directory, {} became owner (one after the other) and each flushed 6 entries; afterwards the directory holds {} entries instead of {}", nthreads, w, n, 6 * w), replay.clone()));
                }
            }
            Ok(Err(e)) => res = Some(v("final_open_refused", format!("after the race on an empty directory: {}", e), replay.clone())),
            Err(p) => res = Some(v("panic_in_open", p, replay.clone())),
        }
    }
    util::remove_dir(&dir);
    Ok((res, refused.load(std::sync::atomic::Ordering::Relaxed)))
}
