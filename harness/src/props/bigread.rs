//! C07 with records far larger than any read buffer, read from closed chunks by several threads at once.
//! The scheduled C07 histories use payloads up to 70 kB; here entries of 130-600 kB sit in closed chunks, the
//! cache holds nothing evictable (limits 0), and 2-8 reader threads run `read(0,MAX)`, random sub-ranges and
//! `dump_data().iter()` over the same closed chunk files concurrently while the caller keeps appending and
//! flushing. Every reader must see exactly the entries that were live when it started (entries are only added).

use serde_json::json;

use crate::frame::Viol;
use crate::store::{CfgSpec, Op, Outcome2, Store};
use crate::util::{self, Rng};

fn v(sig: &str, text: String, seed: u64) -> Viol {
    Viol { prop: "C07".into(), sig: format!("C07:{}", sig), text: format!("large-record scenario: {}", text), replay: json!({"kind": "c07big", "seed": seed.to_string()}) }
}

/// Returns (reads checked, bytes read back) or the first violation.
pub fn round(seed: u64) -> Result<(u64, u64), Viol> {
    let mut r = Rng::new(seed);
    let dir = util::fresh_dir("c07big");
    let cfg = CfgSpec { max_records: Some(*r.pick(&[2usize, 3, 4])), max_items: Some(0), capacity: Some(0), read_buf: Some(*r.pick(&[64usize, 4096, 65536])), ..Default::default() };
    let nthreads = *r.pick(&[2usize, 4, 6, 8]);
    let res = (|| -> Result<(u64, u64), Viol> {
        let mut st = Store::open(&dir, &cfg, 1).map_err(|o| v("open", o.brief(), seed))?;
        let mut model: Vec<((u64, u64), String)> = vec![];
        let n_big = r.range(4, 7);
        for i in 0..n_big {
            let len = *r.pick(&[130_000usize, 131_072, 200_000, 400_000, 600_000, 1_000]);
            // content that differs from entry to entry and from block to block
            let mut p = String::with_capacity(len + 16);
            let mut k = 0u64;
            while p.len() < len {
                p.push_str(&format!("<{}:{}>", i, k));
                k += 1;
            }
            let id = (1, i);
            let o = st.write(&Op::Append(vec![(id, p.clone())]));
            if !o.is_ok() {
                return Err(v("append_failed", o.brief(), seed));
            }
            model.push((id, p));
        }
        // make sure the big entries are in closed, synced chunks and out of the cache
        let mut next = n_big;
        for _ in 0..4 {
            let o = st.write(&Op::Append(vec![((1, next), format!("small{}", next))]));
            if !o.is_ok() {
                return Err(v("append_failed", o.brief(), seed));
            }
            model.push(((1, next), format!("small{}", next)));
            next += 1;
        }
        if let Err(e) = st.sync() {
            if e.starts_with("TIMEOUT") {
                return Ok((0, 0));
            }
            return Err(v("sync_failed", e, seed));
        }
        st.rl().drain_cache_evictable();
        let snapshot_len = model.len();
        let want: Vec<((u64, u64), String)> = model.clone();
        let fail: std::sync::Mutex<Option<(String, String)>> = std::sync::Mutex::new(None);
        let reads = std::sync::atomic::AtomicU64::new(0);
        let bytes = std::sync::atomic::AtomicU64::new(0);
        {
            let rl = st.rl();
            let (want, fail, reads, bytes) = (&want, &fail, &reads, &bytes);
            std::thread::scope(|sc| {
                for t in 0..nthreads {
                    sc.spawn(move || {
                        let mut rr = Rng::new(seed ^ (t as u64 + 1) * 7919);
                        for round in 0..12 {
                            if fail.lock().unwrap().is_some() {
                                return;
                            }
                            let (a, b) = match rr.below(3) {
                                0 => (0u64, snapshot_len as u64),
                                1 => {
                                    let a = rr.below(snapshot_len as u64);
                                    (a, (a + 1 + rr.below(3)).min(snapshot_len as u64))
                                }
                                _ => (0, snapshot_len as u64),
                            };
                            let use_iter = (round + t) % 3 == 2;
                            let got: Result<Result<Vec<((u64, u64), String)>, String>, String> = crate::store::guarded(|| {
                                if use_iter {
                                    let mut d = rl.dump_data();
                                    d.iter().collect::<Result<Vec<_>, _>>().map_err(|e| e.to_string())
                                } else {
                                    rl.read(a, b).collect::<Result<Vec<_>, _>>().map_err(|e| e.to_string())
                                }
                            });
                            let expect: Vec<((u64, u64), String)> = if use_iter { want.clone() } else { want[a as usize..b as usize].to_vec() };
                            match got {
                                Err(p) => {
                                    *fail.lock().unwrap() = Some(("read_error:panic".into(), format!("reader thread {} panicked: {}", t, p)));
                                    return;
                                }
                                Ok(Err(e)) => {
                                    *fail.lock().unwrap() = Some(("concurrent_reader_error".into(), format!("reader thread {} ({} concurrent readers, records up to 600 kB in closed chunks): {}", t, nthreads, e)));
                                    return;
                                }
                                Ok(Ok(g)) => {
                                    // the caller appends meanwhile: a reader may see more entries at the end, never fewer or other ones
                                    let ok = if use_iter || b as usize == snapshot_len && a == 0 { g.len() >= expect.len() && g[..expect.len()] == expect[..] } else { g == expect };
                                    if !ok {
                                        let firstbad = g.iter().zip(expect.iter()).position(|(x, y)| x != y);
                                        *fail.lock().unwrap() = Some(("concurrent_reader_wrong".into(), format!("reader thread {} got {} entries for [{},{}), expected {}; first differing entry: {:?}", t, g.len(), a, b, expect.len(), firstbad.map(|i| expect[i].0))));
                                        return;
                                    }
                                    reads.fetch_add(1, std::sync::atomic::Ordering::Relaxed);
                                    bytes.fetch_add(g.iter().map(|e| e.1.len() as u64).sum::<u64>(), std::sync::atomic::Ordering::Relaxed);
                                }
                            }
                        }
                    });
                }
            });
        }
        if let Some((sig, text)) = fail.lock().unwrap().take() {
            return Err(v(&sig, text, seed));
        }
        // single-threaded read-back at the end
        match st.read_all() {
            Outcome2::Ok(e) if e == model => {}
            Outcome2::Ok(_) => return Err(v("read_wrong", "read(0,MAX) after the concurrent phase differs from what was appended".into(), seed)),
            Outcome2::Err(e) => return Err(v("read_error:io", e, seed)),
            Outcome2::Panic(p) => return Err(v("read_error:panic", p, seed)),
        }
        st.close();
        Ok((reads.load(std::sync::atomic::Ordering::Relaxed), bytes.load(std::sync::atomic::Ordering::Relaxed)))
    })();
    util::remove_dir(&dir);
    res
}

pub fn replay(vj: &serde_json::Value) -> Option<Viol> {
    let seed: u64 = vj["seed"].as_str()?.parse().ok()?;
    (0..5).find_map(|_| round(seed).err())
}
