//! C03 / C05 on REAL crashes: a child process runs a generated history on the real store (free-running worker,
//! no syscall shim involved in any verdict) and reports over a pipe what it is about to issue and what has been
//! acknowledged; the parent kills it with SIGKILL at a seeded moment and then opens the directory the child
//! left behind. This is the "process crash" half of the crash model (completed calls are kept by the kernel),
//! with the interleaving of caller and worker decided by the real scheduler instead of the gate.
//!
//! Protocol (one line per event, written with a single write(2) each):
//!   `B <n>`            caller: about to issue a write call; n single-record writes were accepted before it
//!   `E <n>`            caller: the call returned; n single-record writes are accepted now
//!   `F <id> <n> <g>`   caller: about to call flush(callback id); n writes accepted, journal end g
//!   `A <id> ok|err`    worker: callback of flush id fired
//!
//! Verdicts (after the kill): open must succeed (C05) unless the known finding D6 explains the refusal (a hole in
//! front of a chunk file whose missing bytes were never covered by an acknowledged flush); when it opens, state and
//! entries must equal the reference log after p accepted writes, acked <= p <= issued (C03).

use std::io::{BufRead, Write};

use serde_json::json;

use crate::frame::{ShardOut, Viol};
use crate::genr::{Expect, Gen, GenParams};
use crate::model::Model;
use crate::props::seq;
use crate::store::{CfgSpec, Op, Outcome2, Store};
use crate::util::{self, Rng};

fn emit(line: &str) {
    let s = format!("{}\n", line);
    unsafe {
        libc::write(1, s.as_ptr() as *const libc::c_void, s.len());
    }
}

/// Set in the child: `AckCb::send` reports over the pipe.
pub static CHILD_MODE: std::sync::atomic::AtomicBool = std::sync::atomic::AtomicBool::new(false);

pub fn on_ack_in_child(flush: u64, ok: bool) {
    if CHILD_MODE.load(std::sync::atomic::Ordering::Relaxed) {
        emit(&format!("A {} {}", flush, if ok { "ok" } else { "err" }));
    }
}

fn gen_hist(seed: u64) -> seq::HistCase {
    let mut r = Rng::new(seed);
    let mut p = GenParams::default();
    p.big_payloads = r.chance(1, 4);
    p.lower_term = false;
    p.flush_pm = 180;
    p.sync_pm = 40;
    p.min_ops = 25;
    p.max_ops = 70;
    p.purge_heavy = r.chance(1, 2);
    p.tiny_chunks = r.chance(2, 3);
    seq::gen_case(r.next(), 900_000, &p, "C03")
}

/// `rlmon kill9-child <dir> <seed>`
pub fn child_main(args: &[String]) -> i32 {
    let dir = &args[2];
    let seed: u64 = args[3].parse().unwrap_or(1);
    CHILD_MODE.store(true, std::sync::atomic::Ordering::Relaxed);
    let case = gen_hist(seed);
    let mut r = Rng::new(seed ^ 0xabcdef);
    let mut st = match Store::open(dir, &case.cfg, 1) {
        Ok(s) => s,
        Err(_) => return 3,
    };
    let mut m = Model::new();
    let mut n = 0u64;
    for step in &case.steps {
        match (&step.op, &step.expect) {
            (op, Expect::Accept) if op.is_write() => {
                emit(&format!("B {}", n));
                let o = st.write(op);
                if o.is_ok() {
                    let (recs, _) = Gen::apply_to_model(&mut m, op);
                    n += recs.len() as u64;
                }
                emit(&format!("E {}", n));
            }
            (Op::Flush { .. }, _) | (Op::Sync, _) | (Op::Reopen(_), _) => {
                let id = crate::trace::next_flush_id();
                let g = st.rl().stat().open_chunk.global_end;
                emit(&format!("F {} {} {}", id, n, g));
                let rl = st.rl_mut();
                use raft_log::api::raft_log_writer::RaftLogWriter;
                let _ = rl.flush(Some(crate::store::AckCb::new(id)));
                if !matches!(step.op, Op::Flush { .. }) {
                    let _ = crate::trace::wait_ack(id, 10_000);
                }
            }
            _ => {}
        }
        // vary where the worker stands relative to the caller
        match r.below(6) {
            0 => std::thread::sleep(std::time::Duration::from_micros(r.below(300))),
            1 => std::thread::yield_now(),
            _ => {}
        }
    }
    // idle until killed (or until the parent gives up)
    emit("Z");
    std::thread::sleep(std::time::Duration::from_secs(20));
    0
}

fn v(prop: &str, sig: &str, text: String, seed: u64, kill_after: u64) -> Viol {
    Viol { prop: prop.into(), sig: format!("{}:{}", prop, sig), text: format!("real SIGKILL: {}", text), replay: json!({"kind": "kill9", "seed": seed.to_string(), "kill_after_lines": kill_after}) }
}

pub struct K9Stats {
    pub killed_mid_call: bool,
    pub acked_writes: u64,
    pub issued_writes: u64,
    pub recovered_prefix: Option<u64>,
    pub open_refused_known_d6: bool,
    pub lines: u64,
}

/// One round: returns statistics and violations (C03 and/or C05), or Err for a harness problem.
pub fn round(seed: u64) -> Result<(K9Stats, Vec<Viol>), String> {
    let mut r = Rng::new(seed ^ 0x5151);
    let case = gen_hist(seed);
    // models after every accepted single-record write
    let mut models = vec![Model::new()];
    {
        let mut m = Model::new();
        for step in &case.steps {
            if let (op, Expect::Accept) = (&step.op, &step.expect) {
                if op.is_write() {
                    let mut m2 = m.clone();
                    let (recs, res) = Gen::apply_to_model(&mut m2, op);
                    if res.is_ok() {
                        for rec in recs {
                            m.apply(&rec);
                            models.push(m.clone());
                        }
                    }
                }
            }
        }
    }
    let total_lines_estimate = case.steps.len() as u64 * 2;
    let kill_after = r.below(total_lines_estimate + 4);
    let dir = util::fresh_dir("kill9");
    let exe = std::env::current_exe().map_err(|e| e.to_string())?;
    let mut child = std::process::Command::new(&exe)
        .args(["kill9-child", &dir, &seed.to_string()])
        .stdout(std::process::Stdio::piped())
        .stderr(std::process::Stdio::null())
        .spawn()
        .map_err(|e| e.to_string())?;
    let out = child.stdout.take().ok_or("no pipe")?;
    let mut rd = std::io::BufReader::new(out);
    let mut lines: Vec<String> = vec![];
    let mut line = String::new();
    // read until the kill point, then kill, then drain what was already in the pipe
    let t0 = util::now_s();
    while (lines.len() as u64) < kill_after {
        line.clear();
        match rd.read_line(&mut line) {
            Ok(0) => break,
            Ok(_) => lines.push(line.trim().to_string()),
            Err(_) => break,
        }
        if line.trim() == "Z" || util::now_s() - t0 > 60.0 {
            break;
        }
    }
    // a little jitter so that the kill lands inside calls as well as between them
    for _ in 0..r.below(2000) {
        std::hint::spin_loop();
    }
    let _ = child.kill();
    let _ = child.wait();
    loop {
        line.clear();
        match rd.read_line(&mut line) {
            Ok(0) | Err(_) => break,
            Ok(_) => lines.push(line.trim().to_string()),
        }
    }
    // interpret
    let mut issued_lo = 0u64; // accepted for sure
    let mut in_call = false;
    let mut flush_calls: std::collections::BTreeMap<u64, (u64, u64)> = Default::default();
    let mut acked = 0u64;
    let mut acked_gend = 0u64;
    let mut step_cursor = 0usize; // which write step is in flight (for the upper bound)
    let write_steps: Vec<&Op> = case.steps.iter().filter(|s| s.op.is_write() && matches!(s.expect, Expect::Accept)).map(|s| &s.op).collect();
    for l in &lines {
        let mut it = l.split(' ');
        match it.next() {
            Some("B") => {
                in_call = true;
            }
            Some("E") => {
                in_call = false;
                issued_lo = it.next().and_then(|x| x.parse().ok()).unwrap_or(issued_lo);
                step_cursor += 1;
            }
            Some("F") => {
                let id: u64 = it.next().and_then(|x| x.parse().ok()).unwrap_or(0);
                let n: u64 = it.next().and_then(|x| x.parse().ok()).unwrap_or(0);
                let g: u64 = it.next().and_then(|x| x.parse().ok()).unwrap_or(0);
                flush_calls.insert(id, (n, g));
            }
            Some("A") => {
                let id: u64 = it.next().and_then(|x| x.parse().ok()).unwrap_or(0);
                if it.next() == Some("ok") {
                    if let Some((n, g)) = flush_calls.get(&id) {
                        acked = acked.max(*n);
                        acked_gend = acked_gend.max(*g);
                    }
                }
            }
            _ => {}
        }
    }
    // upper bound: the call in flight may have taken effect partly or fully
    let mut issued_hi = issued_lo;
    if in_call {
        if let Some(op) = write_steps.get(step_cursor) {
            let k = match op {
                Op::Append(es) => es.len() as u64,
                _ => 1,
            };
            issued_hi = issued_lo + k;
        }
    }
    issued_hi = issued_hi.min(models.len() as u64 - 1);
    let mut stats = K9Stats { killed_mid_call: in_call, acked_writes: acked, issued_writes: issued_hi, recovered_prefix: None, open_refused_known_d6: false, lines: lines.len() as u64 };
    let mut viols = vec![];
    // recover
    let img_before = crate::store::read_image(&dir);
    let cfg: CfgSpec = case.cfg.clone();
    match Store::open(&dir, &cfg, 2) {
        Ok(mut st) => {
            let state = st.state();
            let entries = st.read_all();
            match entries {
                Outcome2::Ok(es) => {
                    let found = (acked..=issued_hi).find(|p| {
                        let m = &models[*p as usize];
                        m.st == state && m.entries() == es
                    });
                    match found {
                        Some(p) => stats.recovered_prefix = Some(p),
                        None => {
                            // is it some other prefix (an acknowledged write lost / a write never issued)?
                            let any = (0..models.len()).find(|p| models[*p].st == state && models[*p].entries() == es);
                            let (sig, what) = match any {
                                Some(p) if (p as u64) < acked => ("acked_write_lost:kill9", format!("recovered the state after {} accepted writes, but {} had been acknowledged", p, acked)),
                                Some(p) => ("write_from_the_future:kill9", format!("recovered the state after {} accepted writes, only {} had been issued", p, issued_hi)),
                                None => ("not_a_prefix:kill9", format!("recovered state {:?} with {} entries is the reference log after no prefix of the issued writes (acknowledged {}, issued {})", state, es.len(), acked, issued_hi)),
                            };
                            viols.push(v("C03", sig, what, seed, kill_after));
                        }
                    }
                }
                Outcome2::Err(e) => viols.push(v("C05", "read_error_after_recovery:kill9", e, seed, kill_after)),
                Outcome2::Panic(p) => viols.push(v("C05", "read_panic_after_recovery:kill9", p, seed, kill_after)),
            }
            // the recovered store keeps working: one write, flush, ack
            if viols.is_empty() {
                let top = models.iter().flat_map(|m| m.log.values().map(|e| e.0.0)).max().unwrap_or(0) + 1_000;
                let next = match state.last {
                    Some(l) => (top.max(l.0), l.1 + 1),
                    None => (top, state.purged.map(|p| p.1 + 1).unwrap_or(0)),
                };
                let o = st.write(&Op::Append(vec![(next, "after-kill9".into())]));
                if !o.is_ok() {
                    viols.push(v("C05", "continuation_write:kill9", format!("append {:?} on the recovered store: {}", next, o.brief()), seed, kill_after));
                } else if let Err(e) = st.sync() {
                    if !e.starts_with("TIMEOUT") {
                        viols.push(v("C05", "continuation_flush:kill9", e, seed, kill_after));
                    }
                }
            }
            st.close();
        }
        Err(crate::store::Outcome::Panic(p)) => viols.push(v("C05", &format!("open_panic:{}", p.rsplit(" @ ").next().unwrap_or("?")), p, seed, kill_after)),
        Err(o) => {
            // D6: a hole in front of a chunk file, all bytes that are missing lie beyond what any acknowledged flush covered
            let e = match &o {
                crate::store::Outcome::Err(e) => e.clone(),
                other => other.brief(),
            };
            let mut d6 = false;
            if e.contains("Gap between chunks") || e.contains("contains no complete record but is not the last chunk") {
                for w in img_before.windows(2) {
                    let end = w[0].0 + crate::refcodec::parse_file(&w[0].1).good_len as u64;
                    if end < w[1].0 && end >= acked_gend {
                        d6 = true;
                    }
                    if end < w[1].0 && end < acked_gend {
                        d6 = false;
                        break;
                    }
                }
            }
            if d6 {
                stats.open_refused_known_d6 = true;
                viols.push(v("C05", "open_err:hole_left_by_unwritten_chunk_tail", format!("open refused: {} (no acknowledged byte is missing: journal end covered by acknowledgements {})", e, acked_gend), seed, kill_after));
            } else {
                viols.push(v("C05", "open_err:kill9", format!("open refused: {} (acknowledged journal end {})", e, acked_gend), seed, kill_after));
            }
        }
    }
    util::remove_dir(&dir);
    Ok((stats, viols))
}

pub fn run(out: &mut ShardOut, rounds: u64, r: &mut Rng, t_left: &dyn Fn() -> bool) {
    for _ in 0..rounds {
        if !t_left() {
            break;
        }
        match round(r.next()) {
            Ok((s, vs)) => {
                out.count("real_sigkill_rounds", 1);
                if s.killed_mid_call {
                    out.count("real_sigkill_rounds_killed_inside_a_write_call", 1);
                }
                if s.acked_writes > 0 {
                    out.count("real_sigkill_rounds_with_acknowledged_writes_at_stake", 1);
                }
                if let Some(p) = s.recovered_prefix {
                    out.count("real_sigkill_recoveries_matching_a_prefix", 1);
                    out.count(&format!("real_sigkill_recovered_prefix_minus_acked:{}", (p - s.acked_writes).min(9)), 1);
                }
                if s.open_refused_known_d6 {
                    out.count("real_sigkill_rounds_where_open_was_refused(known_finding_D6)", 1);
                }
                out.count("real_sigkill_protocol_lines_read", s.lines);
                for vi in vs {
                    out.viol(vi);
                }
            }
            Err(e) => out.inconclusive.push(format!("real-SIGKILL round: {}", e)),
        }
    }
}

pub fn replay(vj: &serde_json::Value) -> Option<Viol> {
    let seed: u64 = vj["seed"].as_str()?.parse().ok()?;
    // the kill point is seeded, the scheduling is not: try a few times
    (0..20).find_map(|_| round(seed).ok().and_then(|(_, v)| v.into_iter().next()))
}

#[allow(dead_code)]
fn unused(_: &mut dyn Write) {}
