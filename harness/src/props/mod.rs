pub mod c04;
pub mod c08;
pub mod c14;
pub mod cache;
pub mod codec;
pub mod crash;
pub mod sched;
pub mod seq;
