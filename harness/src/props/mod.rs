pub mod seq;
