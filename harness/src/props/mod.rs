pub mod codec;
pub mod seq;
