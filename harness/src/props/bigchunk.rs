//! C15 with chunks much larger than the cache limits: a whole chunk's worth of entries stays pinned (over the limit)
//! until the chunk is closed and synced, then the eviction boundary jumps over all of them at once; the very next
//! append must bring the cache back to "only entries above the boundary may exceed the limits". The scheduled
//! histories of the main C15 workload use chunks of 1-8 records and never make the boundary jump far.

use serde_json::json;

use crate::frame::Viol;
use crate::store::{CfgSpec, Op, Store};
use crate::util::{self, Rng};

fn v(sig: &str, text: String, seed: u64) -> Viol {
    Viol { prop: "C15".into(), sig: format!("C15:{}", sig), text: format!("large-chunk scenario: {}", text), replay: json!({"kind": "c15big", "seed": seed.to_string()}) }
}

fn observe(st: &Store, what: &str, seed: u64) -> Result<(u64, u64, Option<(u64, u64)>, Vec<((u64, u64), u64)>), Viol> {
    let rl = st.rl();
    let s = rl.stat();
    let (boundary, resident) = rl.verif_cache_resident();
    let bytes: u64 = resident.iter().map(|x| x.1).sum();
    if s.payload_cache_item_count != resident.len() as u64 {
        return Err(v("item_count", format!("{}: stat reports {} cached items, {} are resident", what, s.payload_cache_item_count, resident.len()), seed));
    }
    if s.payload_cache_size != bytes {
        return Err(v("size", format!("{}: stat reports cache size {} bytes, resident payloads total {} bytes", what, s.payload_cache_size, bytes), seed));
    }
    Ok((resident.len() as u64, bytes, boundary, resident))
}

/// Returns (observations, largest boundary jump in entries) or the first violation.
pub fn round(seed: u64) -> Result<(u64, u64), Viol> {
    let mut r = Rng::new(seed);
    let dir = util::fresh_dir("c15big");
    let max_records = *r.pick(&[70usize, 151, 300]);
    let max_items = *r.pick(&[0usize, 3, 10]);
    let capacity = *r.pick(&[None, Some(64usize), Some(2000)]);
    let cfg = CfgSpec { max_records: Some(max_records), max_items: Some(max_items), capacity, read_buf: Some(4096), ..Default::default() };
    let mut obs = 0u64;
    let mut jump = 0u64;
    let res = (|| -> Result<(), Viol> {
        let mut st = Store::open(&dir, &cfg, 1).map_err(|o| v("open", o.brief(), seed))?;
        let mut next = 0u64;
        for cycle in 0..2 {
            // fill the open chunk until it is closed (no flush in between: everything stays pinned)
            let closed_before = st.rl().stat().closed_chunks.len();
            let mut guard = 0;
            while st.rl().stat().closed_chunks.len() == closed_before && guard < 400 {
                guard += 1;
                let n = if r.chance(1, 6) { 3 } else { 1 };
                let es: Vec<((u64, u64), String)> = (0..n).map(|k| ((1, next + k), format!("big{}:{}", next + k, "p".repeat(r.below(30) as usize)))).collect();
                next += n;
                let o = st.write(&Op::Append(es));
                if !o.is_ok() {
                    return Err(v("append_failed", o.brief(), seed));
                }
            }
            observe(&st, "chunk just closed", seed)?;
            obs += 1;
            // flush + ack + idle: the worker has synced the closed chunk and moved the boundary
            if let Err(e) = st.sync() {
                if e.starts_with("TIMEOUT") {
                    return Ok(());
                }
                return Err(v("sync_failed", e, seed));
            }
            let (n_before, _, boundary, resident) = observe(&st, "after flush + idle", seed)?;
            obs += 1;
            let evictable = resident.iter().filter(|(id, _)| Some(*id) <= boundary).count() as u64;
            jump = jump.max(evictable);
            // one append with the worker idle since before the call: the boundary in force is `boundary`
            let o = st.write(&Op::Append(vec![((1, next), format!("big{}", next))]));
            next += 1;
            if !o.is_ok() {
                return Err(v("append_failed", o.brief(), seed));
            }
            let (n, bytes, b2, resident) = observe(&st, "after the append that follows the boundary jump", seed)?;
            obs += 1;
            let cap = capacity.unwrap_or(1024 * 1024 * 1024) as u64;
            if n > max_items as u64 || bytes > cap {
                if let Some((id, _)) = resident.iter().find(|(id, _)| Some(*id) <= boundary) {
                    return Err(v(
                        "over_limit_with_evictable_resident",
                        format!("cycle {}: chunk of {} records closed and synced, boundary {:?} ({} evictable entries resident, {} resident in all); after the next append {} entries / {} bytes are resident (limits {} / {}) and entry {:?} <= boundary is still there (boundary now {:?})", cycle, max_records, boundary, evictable, n_before, n, bytes, max_items, cap, id, b2),
                        seed,
                    ));
                }
            }
            st.rl().drain_cache_evictable();
            let (_, _, b3, resident) = observe(&st, "after drain", seed)?;
            obs += 1;
            if let Some((id, _)) = resident.iter().find(|(id, _)| Some(*id) <= b3) {
                return Err(v("evictable_resident_after_drain", format!("resident entry {:?} <= boundary {:?} after drain", id, b3), seed));
            }
        }
        st.close();
        Ok(())
    })();
    util::remove_dir(&dir);
    res.map(|_| (obs, jump))
}

pub fn replay(vj: &serde_json::Value) -> Option<Viol> {
    let seed: u64 = vj["seed"].as_str()?.parse().ok()?;
    round(seed).err()
}
