//! C09 (corruption is reported) and C10 (torn / zero tail) over images the store itself produced.

use std::collections::BTreeMap;

use serde_json::{Value, json};

use crate::frame::{Ctx, Tier, Viol};
use crate::genr::{Gen, GenParams};
use crate::model::{LogId, MState, Model};
use crate::props::c08::replay_files;
use crate::props::crash::{Image, ImageDir};
use crate::props::seq;
use crate::refcodec::{self, DecErr, Field, Tail};
use crate::store::{self, CfgSpec, Outcome, Outcome2, Store};
use crate::util::{self, Rng};

pub struct CleanImage {
    pub img: Image,
    pub cfg: CfgSpec,
    pub state: MState,
    pub entries: Vec<(LogId, String)>,
    pub ops: Vec<String>,
    /// chunk files the history deleted (all their entries purged) that abut the oldest retained chunk, oldest first:
    /// a crash between the sync of the purge record and the worker's unlink leaves exactly these in the directory
    pub leftover: Image,
}

impl CleanImage {
    /// The same journal as a crash between "purge record synced" and "purged chunk files unlinked" leaves it: the
    /// purged chunk files are still there. Only returned when the real store recovers it to the same state and entries.
    pub fn with_leftover(&self) -> Option<CleanImage> {
        if self.leftover.is_empty() {
            return None;
        }
        let mut img = self.leftover.clone();
        img.extend(self.img.iter().cloned());
        let idir = ImageDir::new("leftover");
        let cfg = { let mut c = self.cfg.clone(); c.truncate = None; c };
        // (an open that succeeds may clean the purged files up; that is not judged here)
        let (res, _after) = open_and_read(&idir, &img, &cfg);
        match res {
            Opened::Ok { state, entries: Ok(es) } if state == self.state && es == self.entries => {
                Some(CleanImage { img, cfg: self.cfg.clone(), state, entries: es, ops: self.ops.clone(), leftover: vec![] })
            }
            _ => None,
        }
    }
}

/// Run a generated history on the real store (free-running worker), flush, close, and take the directory.
pub fn make_clean_image(seed: u64, hist: u64, max_bytes: usize) -> Option<CleanImage> {
    make_clean_image_opt(seed, hist, max_bytes, false)
}

/// `d7_free`: the history never re-appends at or below a removed log id (the pattern of C07's known finding D7),
/// so that the image can be used under tiny cache limits without meeting it.
pub fn make_clean_image_opt(seed: u64, hist: u64, max_bytes: usize, d7_free: bool) -> Option<CleanImage> {
    make_clean_image_x(seed, hist, max_bytes, d7_free, 0)
}

/// `big_tail` > 0: the history ends with one more entry whose payload has that many bytes, so that the last record of
/// the newest chunk spans several kilobytes (and 4 KiB boundaries).
pub fn make_clean_image_x(seed: u64, hist: u64, max_bytes: usize, d7_free: bool, big_tail: usize) -> Option<CleanImage> {
    for attempt in 0..20u64 {
        let mut r = Rng::new(seed.wrapping_add(attempt.wrapping_mul(0x9e37)));
        let mut p = GenParams::default();
        p.big_payloads = false;
        p.lower_term = !d7_free;
        p.min_ops = 6;
        p.max_ops = 22;
        p.end_sync = true;
        p.flush_pm = 60;
        p.sync_pm = 30;
        let mut case = seq::gen_case(r.next(), hist, &p, "C09");
        // 1..6 chunk files
        case.cfg.max_records = *r.pick(&[Some(3usize), Some(4), Some(6), Some(10), None]);
        case.cfg.max_size = *r.pick(&[None, None, Some(400)]);
        case.cfg.read_buf = Some(*r.pick(&[0usize, 1, 7, 64, 4096]));
        if big_tail > 0 {
            let mut m = Model::new();
            for s in &case.steps {
                if s.op.is_write() && matches!(s.expect, crate::genr::Expect::Accept) {
                    let _ = Gen::apply_to_model(&mut m, &s.op);
                }
            }
            let top = case.steps.iter().filter_map(|s| if let store::Op::Append(es) = &s.op { es.iter().map(|e| e.0.0).max() } else { None }).max().unwrap_or(1);
            let id = match m.st.last {
                Some(l) => (top.max(l.0) + 1, l.1 + 1),
                None => (top + 1, m.st.purged.map(|p| p.1 + 1).unwrap_or(0)),
            };
            // inserted before the final sync
            let pos = case.steps.len().saturating_sub(1);
            let mut p = String::new();
            while p.len() < big_tail {
                p.push_str(&format!("[{}]", p.len()));
            }
            case.steps.insert(pos, crate::genr::Step { op: store::Op::Append(vec![(id, p)]), expect: crate::genr::Expect::Accept });
        }
        // keep payloads short so that exhaustive byte sweeps stay affordable
        for s in case.steps.iter_mut() {
            if let store::Op::Append(es) = &mut s.op {
                for e in es.iter_mut() {
                    if e.1.len() > 40 && e.1.len() < 1000 {
                        e.1.truncate(40);
                    }
                }
            }
        }
        let dir = util::fresh_dir("clean");
        crate::trace::reset_acks();
        let mut ok = false;
        let mut out = None;
        if let Ok(mut run) = seq::Runner::new(&case, &dir) {
            run.check_each = false;
            ok = true;
            // every chunk file ever seen complete (closed chunk files never change)
            let mut seen: BTreeMap<u64, Vec<u8>> = BTreeMap::new();
            let has_purge = case.steps.iter().any(|s| matches!(s.op, store::Op::Purge(_)));
            for i in 0..case.steps.len() {
                if run.step(i).is_err() {
                    ok = false;
                    break;
                }
                if has_purge && run.st.rl.is_some() && run.st.wait_idle(2_000) {
                    for (c, path) in store::list_chunks(&dir) {
                        let len = std::fs::metadata(&path).map(|m| m.len() as usize).unwrap_or(0);
                        if seen.get(&c).map(|b| b.len()) != Some(len) {
                            seen.insert(c, std::fs::read(&path).unwrap_or_default());
                        }
                    }
                }
            }
            if ok && run.st.sync().is_ok() {
                let state = run.st.state();
                let entries = match run.st.read_all() {
                    Outcome2::Ok(v) => v,
                    _ => vec![],
                };
                run.st.close();
                let img = store::read_image(&dir);
                let total: usize = img.iter().map(|f| f.1.len()).sum();
                if entries != run.m.entries() && std::env::var("RLMON_DEBUG").is_ok() {
                    eprintln!("DEBUG clean image: store entries {:?} != model {:?}; state {:?}", entries.iter().map(|e| e.0).collect::<Vec<_>>(), run.m.entries().iter().map(|e| e.0).collect::<Vec<_>>(), state);
                }
                if total <= max_bytes && !img.is_empty() && state == run.m.st && entries == run.m.entries() {
                    // deleted chunk files that abut the oldest retained one (walking backwards)
                    let mut leftover: Image = vec![];
                    let mut next = img[0].0;
                    for (c, b) in seen.iter().rev() {
                        if *c < next && *c + b.len() as u64 == next && !b.is_empty() {
                            leftover.insert(0, (*c, b.clone()));
                            next = *c;
                        }
                    }
                    out = Some(CleanImage { img, cfg: case.cfg.clone(), state, entries, ops: crate::genr::steps_brief(&case.steps), leftover });
                }
            } else {
                run.st.close();
            }
        }
        util::remove_dir(&dir);
        if out.is_some() {
            return out;
        }
        let _ = ok;
    }
    None
}

#[derive(Debug)]
pub enum Opened {
    Ok { state: MState, entries: Result<Vec<(LogId, String)>, String> },
    Err(String),
    Panic(String),
}

/// Install `img`, open it with the real store, read everything, close. Returns what happened and the files afterwards.
pub fn open_and_read(idir: &ImageDir, img: &Image, cfg: &CfgSpec) -> (Opened, Image) {
    idir.install(img);
    let r = match Store::open(&idir.dir, cfg, 40) {
        Ok(mut st) => {
            let state = st.state();
            let entries = match st.read_all() {
                Outcome2::Ok(v) => Ok(v),
                Outcome2::Err(e) => Err(e),
                Outcome2::Panic(p) => Err(format!("panic: {}", p)),
            };
            let _ = st.wait_idle(5_000);
            st.close();
            Opened::Ok { state, entries }
        }
        Err(Outcome::Err(e)) => Opened::Err(e),
        Err(Outcome::Panic(p)) => Opened::Panic(p),
        Err(Outcome::Ok(_)) => unreachable!(),
    };
    let after = store::read_image(&idir.dir);
    (r, after)
}

fn img_json(img: &Image) -> Value {
    json!(img.iter().map(|(c, b)| json!([c, util::hex(b)])).collect::<Vec<_>>())
}

pub fn img_from_json(v: &Value) -> Option<Image> {
    Some(v.as_array()?.iter().filter_map(|e| Some((e.get(0)?.as_u64()?, util::unhex(e.get(1)?.as_str()?)))).collect())
}

// ---------------------------------------------------------------------------------------
// C09

#[derive(Default)]
pub struct C09Stats {
    pub opens: u64,
    pub refused: u64,
    pub by_class: BTreeMap<String, u64>,
    pub removed_middle: u64,
    pub exhaustive_images: u64,
    pub live_alterations: u64,
    pub live_reported: u64,
    pub no_truncate_cases: u64,
    pub dump_cases: u64,
}

fn c09_viol(sig: String, text: String, ci: &CleanImage, mutated: &Image, desc: Value) -> Viol {
    Viol { prop: "C09".into(), sig: format!("C09:{}", sig), text, replay: json!({"kind": "c09", "cfg": ci.cfg.to_json(), "image": img_json(mutated), "original": img_json(&ci.img), "mutation": desc}) }
}

/// Decide one mutated image. `fidx` = index of the mutated file, `rec_start` = start of the mutated record in it.
#[allow(clippy::too_many_arguments)]
/// With `truncate_incomplete_record = false` nothing may be cut off: every altered byte must make open fail
/// (no "looks like a torn tail" ambiguity exists), and no file may change.
fn c09_judge_no_truncate(ci: &CleanImage, idir: &ImageDir, mutated: &Image, field: Option<Field>, desc: Value, stats: &mut C09Stats) -> Option<Viol> {
    let cfg = { let mut c = ci.cfg.clone(); c.truncate = Some(false); c };
    let (res, after) = open_and_read(idir, mutated, &cfg);
    stats.opens += 1;
    stats.no_truncate_cases += 1;
    let fname = field.map(|f| f.name()).unwrap_or("?");
    match res {
        Opened::Panic(p) => Some(c09_viol(format!("panic:{}", p.rsplit(" @ ").next().unwrap_or("?")), format!("open (truncation disabled) panicked: {}", p), ci, mutated, desc)),
        Opened::Ok { entries: Err(_), .. } => None,
        Opened::Ok { state, entries: Ok(es) } => Some(c09_viol(
            format!("absorbed_with_truncation_disabled:{}", fname),
            format!("truncate_incomplete_record=false, an altered {} byte, and open succeeded without any error (state {:?}, {} entries; written {:?}, {})", fname, state, es.len(), ci.state, ci.entries.len()),
            ci,
            mutated,
            desc,
        )),
        Opened::Err(_) => {
            stats.refused += 1;
            if &after != mutated {
                return Some(c09_viol("refused_open_modified_files_with_truncation_disabled".into(), "open refused (truncation disabled) but chunk files changed".into(), ci, mutated, desc));
            }
            None
        }
    }
}

/// The offline Dump tool reads the same files: it must show an error for the altered record, not a shorter journal.
fn c09_judge_dump(ci: &CleanImage, idir: &ImageDir, mutated: &Image, orig_records: usize, field: Option<Field>, desc: Value, stats: &mut C09Stats) -> Option<Viol> {
    use raft_log::{Dump, DumpApi};
    idir.install(mutated);
    stats.dump_cases += 1;
    let cfg = ci.cfg.to_config(&idir.dir);
    let mut ok_records = 0usize;
    let mut errors = 0usize;
    let r = crate::store::guarded(|| {
        let d = Dump::<crate::store::V>::new(cfg)?;
        d.write_with(|_c, _i, res| {
            match res {
                Ok(_) => ok_records += 1,
                Err(_) => errors += 1,
            }
            Ok(())
        })
    });
    match r {
        Err(p) => Some(c09_viol(format!("dump_panic:{}", p.rsplit(" @ ").next().unwrap_or("?")), format!("Dump of an image with an altered byte panicked: {}", p), ci, mutated, desc)),
        Ok(Err(_)) => None,
        Ok(Ok(())) => {
            if errors == 0 {
                Some(c09_viol(
                    format!("dump_silent:{}", field.map(|f| f.name()).unwrap_or("?")),
                    format!("Dump listed {} records without any error although a byte of a record was altered (the unaltered image has {} records)", ok_records, orig_records),
                    ci,
                    mutated,
                    desc,
                ))
            } else {
                None
            }
        }
    }
}

fn c09_judge(ci: &CleanImage, idir: &ImageDir, mutated: &Image, fidx: usize, rec_start: usize, field: Option<Field>, desc: Value, stats: &mut C09Stats) -> Option<Viol> {
    let cfg = { let mut c = ci.cfg.clone(); c.truncate = None; c };
    let (res, after) = open_and_read(idir, mutated, &cfg);
    stats.opens += 1;
    let newest = fidx + 1 == mutated.len();
    let fname = field.map(|f| f.name()).unwrap_or("removed_chunk");
    let wherec = if newest { "newest_chunk" } else { "older_chunk" };
    match res {
        Opened::Panic(p) => Some(c09_viol(format!("panic:{}", p.rsplit(" @ ").next().unwrap_or("?")), format!("open panicked on a corrupted image ({} in {}): {}", fname, wherec, p), ci, mutated, desc)),
        Opened::Ok { state, entries } => {
            match &entries {
                Err(_) => {
                    // reported when the affected entry is read: acceptable by the statement
                    stats.refused += 1;
                    None
                }
                Ok(es) => {
                    let same = state == ci.state && *es == ci.entries;
                    // D11a pattern: the altered byte makes the record's declared extent run past the end of the
                    // newest chunk, so it looks like an incomplete tail; open succeeded with exactly the records before it
                    let dec = refcodec::decode(&mutated[fidx].1[rec_start..]);
                    let mut parts: Vec<(u64, &[u8])> = mutated.iter().take(fidx).map(|(c, b)| (*c, b.as_slice())).collect();
                    parts.push((mutated[fidx].0, &mutated[fidx].1[..rec_start]));
                    let prefix_state = if rec_start == 0 { replay_files(&parts[..parts.len() - 1]).ok() } else { replay_files(&parts).ok() };
                    let is_prefix = prefix_state.as_ref().map(|(st, log)| *st == state && log.values().cloned().collect::<Vec<_>>() == *es).unwrap_or(false);
                    if newest && dec == Err(DecErr::Eof) && is_prefix {
                        return Some(c09_viol(
                            "absorbed_as_torn_tail:declared_extent_exceeds_end_of_newest_chunk".into(),
                            format!("altered {} byte of a complete record in the newest chunk makes its declared extent exceed the file end; open succeeded and silently dropped that record and everything after it (state {:?} instead of {:?})", fname, state, ci.state),
                            ci,
                            mutated,
                            desc,
                        ));
                    }
                    Some(c09_viol(
                        format!("absorbed:{}:{}:{}", fname, wherec, if same { "state_unchanged" } else { "state_differs" }),
                        format!("open succeeded on an image with an altered {} byte in the {} and no read reported an error; state {:?} (written {:?}), {} entries (written {})", fname, wherec, state, ci.state, es.len(), ci.entries.len()),
                        ci,
                        mutated,
                        desc,
                    ))
                }
            }
        }
        Opened::Err(_e) => {
            stats.refused += 1;
            // a refused open must leave every chunk file other than the newest exactly as it was
            let before: BTreeMap<u64, &Vec<u8>> = mutated.iter().map(|(c, b)| (*c, b)).collect();
            let afterm: BTreeMap<u64, &Vec<u8>> = after.iter().map(|(c, b)| (*c, b)).collect();
            let newest_id = mutated.last().map(|f| f.0).unwrap_or(0);
            let mut changed: Vec<u64> = vec![];
            for (c, b) in &before {
                if *c == newest_id {
                    continue;
                }
                if afterm.get(c) != Some(b) {
                    changed.push(*c);
                }
            }
            if changed.is_empty() {
                return None;
            }
            // D11b pattern: exactly one older chunk changed, cut back to the start of the record whose decoding hit EOF / zeros
            if changed.len() == 1 && changed[0] == mutated[fidx].0 && !newest {
                let c = changed[0];
                let old = before[&c];
                let new = afterm.get(&c).map(|b| b.as_slice()).unwrap_or(&[]);
                let dec = refcodec::decode(&old[rec_start..]);
                let rest_zero = old[rec_start..].iter().all(|x| *x == 0);
                if new == &old[..rec_start] && (dec == Err(DecErr::Eof) || rest_zero) {
                    return Some(c09_viol(
                        "refused_open_truncated_older_chunk:cut_at_record_that_hit_eof".into(),
                        format!("open refused, but it first cut the non-newest chunk {} back from {} to {} bytes (the altered {} byte made that record look incomplete): the damage got worse", c, old.len(), new.len(), fname),
                        ci,
                        mutated,
                        desc,
                    ));
                }
            }
            Some(c09_viol(format!("refused_open_modified_older_chunk:{}", fname), format!("open refused and chunk file(s) {:?} other than the newest differ afterwards", changed), ci, mutated, desc))
        }
    }
}

/// "…or reading the affected entry": bytes of Append records in CLOSED chunks are altered underneath an
/// open store whose cache holds nothing for them (max_items = 0), then the entry is read. The read must
/// report an error or return what was written; it must not return something else and must not panic.
pub fn c09_after_open(ci: &CleanImage, r: &mut Rng, stats: &mut C09Stats, out_viols: &mut Vec<Viol>, deadline: f64) {
    use std::os::unix::fs::FileExt;
    if ci.img.len() < 2 {
        return;
    }
    let idir = ImageDir::new("c09live");
    idir.install(&ci.img);
    let mut cfg = ci.cfg.clone();
    cfg.max_items = Some(0);
    cfg.capacity = Some(0);
    cfg.truncate = None;
    let Ok(mut st) = Store::open(&idir.dir, &cfg, 45) else { return };
    let _ = st.wait_idle(5_000);
    st.rl().drain_cache_evictable();
    for (fidx, (cid, bytes)) in ci.img.iter().enumerate() {
        if fidx + 1 == ci.img.len() {
            break; // entries of the open chunk are pinned in the cache
        }
        let path = format!("{}/{}", idir.dir, refcodec::chunk_file_name(*cid));
        let Ok(f) = std::fs::OpenOptions::new().write(true).open(&path) else { continue };
        for (s, e, rec) in refcodec::parse_file(bytes).recs {
            let crate::model::Rec::Append(id, payload) = rec else { continue };
            // only entries that are still live can be read
            if !ci.entries.iter().any(|(i2, p2)| *i2 == id && *p2 == payload) {
                continue;
            }
            for pos in s..e {
                if util::now_s() > deadline {
                    st.close();
                    return;
                }
                let val = bytes[pos] ^ (1 << r.below(8));
                if f.write_all_at(&[val], pos as u64).is_err() {
                    continue;
                }
                stats.live_alterations += 1;
                let res = st.read(id.1, id.1 + 1);
                let _ = f.write_all_at(&[bytes[pos]], pos as u64);
                let desc = json!({"mode": "altered_after_open", "chunk": cid, "offset": pos, "old": bytes[pos], "new": val, "entry": [id.0, id.1]});
                let bad = match res {
                    Outcome2::Err(_) => {
                        stats.live_reported += 1;
                        None
                    }
                    Outcome2::Ok(v) if v.len() == 1 && v[0].0 == id && v[0].1 == payload => None,
                    Outcome2::Ok(v) => Some(("read_returned_altered_entry".to_string(), format!("a byte of entry {:?} in closed chunk {} was altered after open; the cache-miss read returned {:?} instead of an error or the written payload {:?}", id, cid, v.first().map(|x| crate::model::short(&x.1)), crate::model::short(&payload)))),
                    Outcome2::Panic(p) => Some((format!("read_panic:{}", p.rsplit(" @ ").next().unwrap_or("?")), format!("read of an entry whose record was altered on disk panicked: {}", p))),
                };
                if let Some((sig, text)) = bad {
                    if !out_viols.iter().any(|x| x.sig == format!("C09:{}", sig)) {
                        let mut m = ci.img.clone();
                        m[fidx].1[pos] = val;
                        out_viols.push(c09_viol(sig, text, ci, &m, desc));
                    }
                }
            }
        }
    }
    st.close();
}

fn replacements(orig: u8, r: &mut Rng, all: bool) -> Vec<u8> {
    if all {
        return (0..=255u8).filter(|v| *v != orig).collect();
    }
    let mut v: Vec<u8> = (0..8).map(|b| orig ^ (1 << b)).collect();
    v.push(0x00);
    v.push(0xff);
    v.push(r.next() as u8);
    v.push(r.next() as u8);
    v.sort();
    v.dedup();
    v.retain(|x| *x != orig);
    v
}

pub fn c09_image(ci: &CleanImage, r: &mut Rng, all_values: bool, stats: &mut C09Stats, out_viols: &mut Vec<Viol>, deadline: f64) -> bool {
    c09_image_x(ci, r, all_values, stats, out_viols, deadline, false)
}

/// `tail_only`: only the last two records of the newest chunk are swept, with one replacement value per byte (for
/// images whose last record is several kilobytes long).
pub fn c09_image_x(ci: &CleanImage, r: &mut Rng, all_values: bool, stats: &mut C09Stats, out_viols: &mut Vec<Viol>, deadline: f64, tail_only: bool) -> bool {
    c09_image_y(ci, r, all_values, stats, out_viols, deadline, tail_only, usize::MAX)
}

/// `max_vals`: at most that many replacement values per byte (a random subset of the usual ones).
#[allow(clippy::too_many_arguments)]
pub fn c09_image_y(ci: &CleanImage, r: &mut Rng, all_values: bool, stats: &mut C09Stats, out_viols: &mut Vec<Viol>, deadline: f64, tail_only: bool, max_vals: usize) -> bool {
    let idir = ImageDir::new("c09");
    let mut complete = true;
    for (fidx, (cid, bytes)) in ci.img.iter().enumerate() {
        let parsed = refcodec::parse_file(bytes);
        if tail_only && fidx + 1 != ci.img.len() {
            continue;
        }
        for (ri, (s, e, _)) in parsed.recs.iter().enumerate() {
            if tail_only && ri + 2 < parsed.recs.len() {
                continue;
            }
            let fields = refcodec::decode_full(&bytes[*s..*e]).map(|d| d.fields).unwrap_or_default();
            for pos in *s..*e {
                if util::now_s() > deadline {
                    return false;
                }
                let field = fields.iter().find(|(a, b, _)| pos - s >= *a && pos - s < *b).map(|f| f.2);
                let mut vals = replacements(bytes[pos], r, all_values && !tail_only);
                if tail_only {
                    let k = r.below(vals.len() as u64) as usize;
                    vals = vec![if r.chance(1, 2) { vals[k] } else { bytes[pos] ^ (1 << r.below(8)) }];
                }
                while vals.len() > max_vals {
                    let k = r.below(vals.len() as u64) as usize;
                    vals.swap_remove(k);
                }
                for val in vals {
                    let mut m = ci.img.clone();
                    m[fidx].1[pos] = val;
                    let class = format!("{}:{}:{}", field.map(|f| f.name()).unwrap_or("?"), if ri == 0 { "head_state" } else { "record" }, if fidx + 1 == ci.img.len() { "newest" } else { "older" });
                    *stats.by_class.entry(class).or_insert(0) += 1;
                    let desc = json!({"chunk": cid, "offset": pos, "old": bytes[pos], "new": val, "record_index": ri, "field": field.map(|f| f.name())});
                    if let Some(v) = c09_judge(ci, &idir, &m, fidx, *s, field, desc.clone(), stats) {
                        if !out_viols.iter().any(|x| x.sig == v.sig) {
                            out_viols.push(v);
                        }
                    }
                    // a sample of the mutations also with truncation disabled and through the Dump tool
                    if (all_values && !tail_only) || r.chance(1, if tail_only { 40 } else { 6 }) {
                        let mut d2 = desc.clone();
                        d2["variant"] = json!("truncate_disabled");
                        if let Some(v) = c09_judge_no_truncate(ci, &idir, &m, field, d2, stats) {
                            if !out_viols.iter().any(|x| x.sig == v.sig) {
                                out_viols.push(v);
                            }
                        }
                        let mut d3 = desc.clone();
                        d3["variant"] = json!("dump");
                        let total_records: usize = ci.img.iter().map(|(_, b)| refcodec::parse_file(b).recs.len()).sum();
                        if let Some(v) = c09_judge_dump(ci, &idir, &m, total_records, field, d3, stats) {
                            if !out_viols.iter().any(|x| x.sig == v.sig) {
                                out_viols.push(v);
                            }
                        }
                    }
                }
            }
        }
        let _ = &mut complete;
    }
    // every middle chunk removed
    if ci.img.len() >= 3 && !tail_only {
        for k in 1..ci.img.len() - 1 {
            let mut m = ci.img.clone();
            let removed = m.remove(k);
            stats.removed_middle += 1;
            let desc = json!({"removed_chunk": removed.0});
            let cfg = { let mut c = ci.cfg.clone(); c.truncate = None; c };
            let (res, after) = open_and_read(&idir, &m, &cfg);
            stats.opens += 1;
            match res {
                Opened::Err(_) => {
                    stats.refused += 1;
                    let newest = m.last().map(|f| f.0).unwrap_or(0);
                    let changed: Vec<u64> = m.iter().filter(|(c, b)| *c != newest && after.iter().find(|(c2, _)| c2 == c).map(|(_, b2)| b2 != b).unwrap_or(true)).map(|(c, _)| *c).collect();
                    if !changed.is_empty() {
                        out_viols.push(c09_viol("refused_open_modified_older_chunk:removed_chunk".into(), format!("middle chunk {} removed: open refused but chunks {:?} changed", removed.0, changed), ci, &m, desc));
                    }
                }
                Opened::Panic(p) => out_viols.push(c09_viol(format!("panic:{}", p.rsplit(" @ ").next().unwrap_or("?")), format!("middle chunk {} removed: open panicked: {}", removed.0, p), ci, &m, desc)),
                Opened::Ok { state, .. } => out_viols.push(c09_viol("missing_middle_chunk_accepted".into(), format!("middle chunk {} removed: open succeeded with state {:?}", removed.0, state), ci, &m, desc)),
            }
        }
    }
    true
}

// ---------------------------------------------------------------------------------------
// C10

#[derive(Default)]
pub struct C10Stats {
    pub cuts_with_smaller_limits: u64,
    pub opens: u64,
    pub cuts: u64,
    pub zero_tails: u64,
    pub disabled_cases: u64,
    pub continuations: u64,
    pub cut_classes: BTreeMap<String, u64>,
}

fn c10_viol(sig: &str, text: String, ci: &CleanImage, m: &Image, desc: Value, truncate: Option<bool>) -> Viol {
    Viol { prop: "C10".into(), sig: format!("C10:{}", sig), text, replay: json!({"kind": "c10", "cfg": ci.cfg.to_json(), "image": img_json(m), "truncate": truncate, "mutation": desc}) }
}

/// Expected state/entries of an image whose newest chunk keeps only its first `good` bytes.
fn expected_after_cut(img: &Image, good: usize) -> Option<(MState, Vec<(LogId, String)>)> {
    let n = img.len();
    let mut parts: Vec<(u64, &[u8])> = img.iter().take(n - 1).map(|(c, b)| (*c, b.as_slice())).collect();
    if good > 0 {
        parts.push((img[n - 1].0, &img[n - 1].1[..good]));
    }
    if parts.is_empty() {
        return Some((MState::default(), vec![]));
    }
    replay_files(&parts).ok().map(|(s, l)| (s, l.values().cloned().collect()))
}

/// One damaged-tail image, tail truncation enabled.
fn c10_enabled(ci: &CleanImage, idir: &ImageDir, m: &Image, good: usize, desc: Value, stats: &mut C10Stats, r: &mut Rng, do_cont: bool) -> Option<Viol> {
    let mut cfg = ci.cfg.clone();
    cfg.truncate = *r.pick(&[None, Some(true)]);
    let Some((want_state, want_entries)) = expected_after_cut(m, good) else { return None };
    let (res, after) = open_and_read(idir, m, &cfg);
    stats.opens += 1;
    match res {
        Opened::Panic(p) => return Some(c10_viol(&format!("panic:{}", p.rsplit(" @ ").next().unwrap_or("?")), format!("open panicked: {}", p), ci, m, desc, cfg.truncate)),
        Opened::Err(e) => return Some(c10_viol("open_refused", format!("open refused a torn/zero tail although tail truncation is enabled: {}", e), ci, m, desc, cfg.truncate)),
        Opened::Ok { state, entries } => {
            let es = match entries {
                Ok(v) => v,
                Err(e) => return Some(c10_viol("read_error_after_recovery", e, ci, m, desc, cfg.truncate)),
            };
            if state != want_state || es != want_entries {
                return Some(c10_viol(
                    "wrong_prefix_recovered",
                    format!("recovered state {:?} / {} entries, but the records completely present give {:?} / {} entries", state, es.len(), want_state, want_entries.len()),
                    ci,
                    m,
                    desc,
                    cfg.truncate,
                ));
            }
        }
    }
    // the directory after recovery: every file clean, the damaged file cut back to the last complete record
    let newest_id = m.last().unwrap().0;
    for (c, b) in &after {
        let p = refcodec::parse_file(b);
        if p.tail != Tail::Clean {
            return Some(c10_viol("tail_not_removed", format!("after recovery chunk {} still has a {:?} tail", c, p.tail), ci, m, desc, cfg.truncate));
        }
    }
    if good > 0 {
        match after.iter().find(|(c, _)| *c == newest_id) {
            Some((_, b)) if b.len() == good => {}
            Some((_, b)) => return Some(c10_viol("not_cut_at_record_boundary", format!("damaged chunk {} is {} bytes after recovery, the last complete record ends at {}", newest_id, b.len(), good), ci, m, desc, cfg.truncate)),
            None => return Some(c10_viol("damaged_chunk_removed", format!("chunk {} with {} good bytes disappeared", newest_id, good), ci, m, desc, cfg.truncate)),
        }
    }
    let refs: Vec<(u64, &[u8])> = after.iter().map(|(a, b)| (*a, b.as_slice())).collect();
    match replay_files(&refs) {
        Ok((s, _)) if s == want_state => {}
        Ok((s, _)) => return Some(c10_viol("directory_after_recovery_differs", format!("directory after recovery replays to {:?}, expected {:?}", s, want_state), ci, m, desc, cfg.truncate)),
        Err(e) => return Some(c10_viol("directory_after_recovery_broken", e, ci, m, desc, cfg.truncate)),
    }
    // subsequent writes continue from there
    if do_cont {
        stats.continuations += 1;
        idir.install(m);
        // half of the continuations run under a tiny payload cache and drain it: what was recovered must be
        // readable from the files, not only from the cache
        let tiny = r.chance(1, 2);
        let mut cfg = cfg.clone();
        if tiny {
            cfg.max_items = Some(*r.pick(&[0usize, 1, 2]));
            cfg.capacity = Some(*r.pick(&[0usize, 8, 64]));
        }
        let mut st = match Store::open(&idir.dir, &cfg, 41) {
            Ok(s) => s,
            Err(o) => return Some(c10_viol("second_open", o.brief(), ci, m, desc, cfg.truncate)),
        };
        let mut model = Model { st: want_state.clone(), log: want_entries.iter().map(|e| (e.0.1, e.clone())).collect() };
        let mut gp = GenParams::default();
        gp.big_payloads = false;
        gp.lower_term = false;
        let mut g = Gen::new(r.next(), 700_000, gp);
        g.m = model.clone();
        // terms above every term that ever appears in the image: the new ids lie above every id that was ever
        // truncated away, so the known D7 pattern (C07) cannot arise in a tiny-cache continuation
        let top_term = m.iter().flat_map(|(_, b)| refcodec::parse_file(b).recs.into_iter().map(|(_, _, r)| r.max_term())).max().unwrap_or(0);
        g.term_hint = model.st.last.map(|l| l.0).unwrap_or(1).max(1).max(top_term + 1);
        let mut fail = None;
        let mut timed_out = false;
        if tiny {
            st.rl().drain_cache_evictable();
            if st.read_all() != Outcome2::Ok(model.entries()) {
                fail = Some(format!("after recovery under a tiny cache + drain, reading all entries gives {:?}", match st.read_all() { Outcome2::Ok(v) => format!("{} entries", v.len()), Outcome2::Err(e) => e, Outcome2::Panic(p) => p }));
            }
        }
        for _ in 0..5 {
            if fail.is_some() {
                break;
            }
            let op = g.gen_write();
            let mut m2 = g.m.clone();
            if Gen::apply_to_model(&mut m2, &op).1.is_err() {
                continue;
            }
            g.m = m2;
            let o = st.write(&op);
            if !o.is_ok() {
                fail = Some(format!("after recovery, legal {} -> {}", op.brief(), o.brief()));
                break;
            }
            if tiny {
                st.rl().drain_cache_evictable();
                match st.read_all() {
                    Outcome2::Ok(v) if v == g.m.entries() => {}
                    Outcome2::Ok(v) => fail = Some(format!("after recovery + {} under a tiny cache: {}", op.brief(), seq::diff_entries(&v, &g.m.entries()))),
                    Outcome2::Err(e) => fail = Some(format!("after recovery + {} under a tiny cache, read failed: {}", op.brief(), e)),
                    Outcome2::Panic(p) => fail = Some(format!("read panicked: {}", p)),
                }
            }
        }
        model = g.m.clone();
        if fail.is_none() {
            if let Err(e) = st.sync() {
                if !e.starts_with("TIMEOUT") {
                    fail = Some(format!("flush after recovery: {}", e));
                } else {
                    timed_out = true;
                }
            }
        }
        st.close();
        if fail.is_none() && !timed_out {
            match Store::open(&idir.dir, &cfg, 42) {
                Ok(mut s2) => {
                    let ra = s2.read_all();
                    if s2.state() != model.st || ra != Outcome2::Ok(model.entries()) {
                        let how = match &ra {
                            Outcome2::Ok(v) => seq::diff_entries(v, &model.entries()),
                            Outcome2::Err(e) => format!("read failed: {}", e),
                            Outcome2::Panic(p) => format!("read panicked: {}", p),
                        };
                        fail = Some(format!("after recovery + 5 writes + flush + restart (cache max_items={:?}): state {:?}, model {:?}; entries: {}", cfg.max_items, s2.state(), model.st, how));
                    }
                    s2.close();
                }
                Err(o) => fail = Some(format!("restart after recovery + writes: {}", o.brief())),
            }
        }
        if let Some(f) = fail {
            if std::env::var("RLMON_DEBUG").is_ok() {
                for (c, b) in store::read_image(&idir.dir) {
                    eprintln!("DEBUG chunk {} : {:?}", c, refcodec::parse_file(&b).recs.iter().map(|r| r.2.to_json().to_string()).collect::<Vec<_>>());
                }
                eprintln!("DEBUG cfg {:?}", cfg);
            }
            return Some(c10_viol("continuation", f, ci, m, desc, cfg.truncate));
        }
    }
    None
}

/// Same image with tail truncation disabled.
fn c10_disabled(ci: &CleanImage, idir: &ImageDir, m: &Image, has_bad_tail: bool, desc: Value, stats: &mut C10Stats) -> Option<Viol> {
    let mut cfg = ci.cfg.clone();
    cfg.truncate = Some(false);
    stats.disabled_cases += 1;
    let (res, after) = open_and_read(idir, m, &cfg);
    stats.opens += 1;
    match res {
        Opened::Panic(p) => Some(c10_viol(&format!("panic_truncation_disabled:{}", p.rsplit(" @ ").next().unwrap_or("?")), format!("open panicked: {}", p), ci, m, desc, cfg.truncate)),
        Opened::Ok { .. } if has_bad_tail => Some(c10_viol("opened_with_truncation_disabled", "image holds an incomplete or zero tail, truncation is disabled, yet open succeeded".into(), ci, m, desc, cfg.truncate)),
        Opened::Ok { state, entries } => {
            // cut exactly on a record boundary: must open with exactly the records present
            let good = m.last().unwrap().1.len();
            let want = expected_after_cut(m, good);
            match (want, entries) {
                (Some((ws, we)), Ok(es)) if ws == state && we == es => None,
                (Some((ws, _)), _) => Some(c10_viol("wrong_state_on_boundary_cut", format!("cut on a record boundary: got {:?}, expected {:?}", state, ws), ci, m, desc, cfg.truncate)),
                _ => None,
            }
        }
        Opened::Err(e) if !has_bad_tail => Some(c10_viol("boundary_cut_refused", format!("image cut exactly on a record boundary was refused: {}", e), ci, m, desc, cfg.truncate)),
        Opened::Err(_) => {
            if &after != m {
                let changed: Vec<u64> = m.iter().filter(|(c, b)| after.iter().find(|(c2, _)| c2 == c).map(|(_, b2)| b2 != b).unwrap_or(true)).map(|(c, _)| *c).collect();
                return Some(c10_viol("files_touched_with_truncation_disabled", format!("open refused (truncation disabled) but files {:?} changed", changed), ci, m, desc, cfg.truncate));
            }
            None
        }
    }
}

pub fn c10_image(ci: &CleanImage, r: &mut Rng, stats: &mut C10Stats, out_viols: &mut Vec<Viol>, deadline: f64, thorough: bool) -> bool {
    let idir = ImageDir::new("c10");
    let n = ci.img.len();
    let newest = &ci.img[n - 1].1;
    let bounds = refcodec::boundaries(newest);
    let mut push = |v: Option<Viol>, out: &mut Vec<Viol>| {
        if let Some(v) = v {
            if !out.iter().any(|x| x.sig == v.sig) {
                out.push(v);
            }
        }
    };
    // every cut position 0..=len
    for c in 0..=newest.len() {
        if util::now_s() > deadline {
            return false;
        }
        let mut m = ci.img.clone();
        m[n - 1].1.truncate(c);
        let good = bounds.iter().copied().filter(|b| *b <= c).max().unwrap_or(0);
        let on_boundary = good == c;
        let class = if c == 0 { "at_0" } else if on_boundary { "on_boundary" } else if c < bounds.get(1).copied().unwrap_or(0) { "inside_head_record" } else { "inside_record" };
        *stats.cut_classes.entry(class.to_string()).or_insert(0) += 1;
        stats.cuts += 1;
        let desc = json!({"cut_newest_chunk_at": c, "last_complete_record_ends_at": good});
        let do_cont = thorough || on_boundary || c % 7 == 0;
        push(c10_enabled(ci, &idir, &m, good, desc.clone(), stats, r, do_cont), out_viols);
        // "configurations may differ between runs": a sixth of the cuts are also recovered by a store configured with
        // much smaller chunk limits than the one that wrote the image (smaller than the torn record itself)
        if r.chance(1, 6) {
            let mut cfg2 = ci.cfg.clone();
            cfg2.max_size = Some(*r.pick(&[1usize, 20, 100]));
            cfg2.max_records = Some(*r.pick(&[1usize, 2, 1000]));
            let ci2 = CleanImage { img: ci.img.clone(), cfg: cfg2, state: ci.state.clone(), entries: ci.entries.clone(), ops: vec![], leftover: vec![] };
            let mut d2 = desc.clone();
            d2["recovered_with_chunk_limits"] = json!([ci2.cfg.max_records, ci2.cfg.max_size]);
            stats.cuts_with_smaller_limits += 1;
            push(c10_enabled(&ci2, &idir, &m, good, d2, stats, r, false), out_viols);
        }
        push(c10_disabled(ci, &idir, &m, !on_boundary, desc, stats), out_viols);
    }
    // zero tails from every record boundary
    let lens: &[usize] = &[1, 2, 3, 7, 8, 19, 20, 21, 27, 28, 29, 64, 1023, 1024, 1025, 33_792, 65_536, 65_537, 70_000, 200_000];
    for b in &bounds {
        for zl in lens {
            if util::now_s() > deadline {
                return false;
            }
            if !thorough && *zl > 1025 && r.chance(2, 3) {
                continue;
            }
            let mut m = ci.img.clone();
            m[n - 1].1.truncate(*b);
            m[n - 1].1.resize(*b + *zl, 0);
            stats.zero_tails += 1;
            let desc = json!({"zero_tail_from": b, "zeros": zl});
            push(c10_enabled(ci, &idir, &m, *b, desc.clone(), stats, r, *zl == 8 || thorough), out_viols);
            push(c10_disabled(ci, &idir, &m, true, desc, stats), out_viols);
        }
    }
    true
}

// ---------------------------------------------------------------------------------------

pub fn run_shard(ctx: &mut Ctx) {
    let mut r = Rng::new(ctx.shard_seed());
    let is09 = ctx.prop == "C09";
    let quick_images = if is09 { 2u64 } else { 3 };
    let mut h = 0u64;
    let mut s09 = C09Stats::default();
    let mut s10 = C10Stats::default();
    let deadline = ctx.t0 + ctx.budget_s;
    if !is09 {
        // zero tails under a vote type whose decoder has its own validity check (and error kind)
        ctx.begin_phase(0.1);
        let n = if ctx.tier == Tier::Quick { 3 } else { 200 };
        for _ in 0..n {
            if !ctx.time_left() {
                break;
            }
            match crate::props::pvote::zero_tail_round(r.next()) {
                Ok(k) => {
                    ctx.out.count("zero_tail_images_under_a_vote_type_with_its_own_validity_check", k);
                    ctx.out.evaluations += k;
                }
                Err(vi) => ctx.out.viol(vi),
            }
        }
        ctx.end_phase();
    }
    loop {
        if ctx.tier == Tier::Quick && h >= quick_images {
            break;
        }
        if !ctx.time_left() {
            break;
        }
        let max_bytes = if is09 { if ctx.tier == Tier::Thorough { 700 } else { 900 } } else { 2500 };
        let Some(ci) = make_clean_image_opt(r.next(), h + ctx.shard as u64 * 1_000_000, max_bytes, !is09) else {
            ctx.out.inconclusive.push("could not produce a clean image".into());
            h += 1;
            continue;
        };
        h += 1;
        let mut viols = vec![];
        let before09 = s09.opens;
        let before10 = s10.opens;
        if is09 {
            // (thorough: the first image of a shard is swept like in the quick tier so that every kind of image and
            // oracle gets its turn inside the time box; all 255 values from the second image on)
            let all = ctx.tier == Tier::Thorough && h > 1;
            c09_after_open(&ci, &mut r, &mut s09, &mut viols, deadline);
            let done = c09_image(&ci, &mut r, all, &mut s09, &mut viols, deadline);
            if done && all {
                s09.exhaustive_images += 1;
            }
            ctx.out.evaluations += s09.opens - before09;
        } else {
            c10_image(&ci, &mut r, &mut s10, &mut viols, deadline, ctx.tier == Tier::Thorough);
            ctx.out.evaluations += s10.opens - before10;
        }
        if is09 && h == 1 {
            // one image per shard whose last record is 4-9 kB long (it crosses 4 KiB boundaries of the file): the last
            // two records of the newest chunk are swept
            let big = *r.pick(&[4200usize, 5000, 8300]);
            if let Some(cb) = make_clean_image_x(r.next(), 800_000 + ctx.shard as u64 * 1_000_000, 20_000, false, big) {
                let b = s09.opens;
                c09_image_x(&cb, &mut r, false, &mut s09, &mut viols, deadline, true);
                ctx.out.evaluations += s09.opens - b;
                ctx.out.count("images_with_a_multi_kilobyte_last_record", 1);
                ctx.out.count("opens_of_images_with_an_altered_multi_kilobyte_last_record", s09.opens - b);
                ctx.out.distinct.insert(crate::shadow::image_hash(&cb.img));
            }
        }
        if is09 {
            // the same journal with the purged chunk files still present (crash between the sync of the purge record
            // and the unlink): every alteration must be reported and a refused open must leave those files alone too
            let mut lo = ci.with_leftover();
            if lo.is_none() && h == 1 {
                // make sure every shard sweeps at least one such image
                for k in 0..60u64 {
                    if !ctx.time_left() {
                        break;
                    }
                    if let Some(c2) = make_clean_image_opt(r.next(), 500_000 + k + ctx.shard as u64 * 1_000_000, max_bytes, false) {
                        lo = c2.with_leftover();
                        if lo.is_some() {
                            break;
                        }
                    }
                }
            }
            if let Some(lo) = lo {
                let b = s09.opens;
                let all = ctx.tier == Tier::Thorough && h > 1;
                let done = c09_image_y(&lo, &mut r, all, &mut s09, &mut viols, deadline, false, if all { usize::MAX } else { 4 });
                if done && all {
                    s09.exhaustive_images += 1;
                }
                ctx.out.evaluations += s09.opens - b;
                ctx.out.count("images_with_purged_chunk_files_still_present", 1);
                ctx.out.count("purged_chunk_files_still_present", (lo.img.len() - ci.img.len().min(lo.img.len())) as u64);
                ctx.out.distinct.insert(crate::shadow::image_hash(&lo.img));
            }
        }
        ctx.out.count("images", 1);
        ctx.out.count("image_bytes", ci.img.iter().map(|f| f.1.len() as u64).sum());
        ctx.out.count("image_chunk_files", ci.img.len() as u64);
        ctx.out.distinct.insert(crate::shadow::image_hash(&ci.img));
        if h == 1 {
            ctx.out.sample(json!({"history": ci.ops, "config": ci.cfg.to_json(), "chunks": ci.img.iter().map(|(c, b)| json!({"chunk": c, "len": b.len(), "records": refcodec::parse_file(b).recs.iter().map(|r| r.2.kind()).collect::<Vec<_>>()})).collect::<Vec<_>>()}));
        }
        for v in viols {
            ctx.out.viol(v);
        }
    }
    if is09 {
        ctx.out.count("opens_of_mutated_images", s09.opens);
        ctx.out.count("mutations_reported(open_or_read_error)", s09.refused);
        ctx.out.count("middle_chunks_removed", s09.removed_middle);
        ctx.out.count("mutations_also_opened_with_truncation_disabled", s09.no_truncate_cases);
        ctx.out.count("mutations_also_listed_with_the_Dump_tool", s09.dump_cases);
        ctx.out.count("bytes_altered_underneath_an_open_store_then_read", s09.live_alterations);
        ctx.out.count("of_which_reported_by_the_read", s09.live_reported);
        ctx.out.count("images_swept_with_all_255_values_at_every_byte", s09.exhaustive_images);
        for (k, n) in &s09.by_class {
            ctx.out.count(&format!("mutated:{}", k), *n);
        }
    } else {
        ctx.out.count("opens", s10.opens);
        ctx.out.count("cut_positions", s10.cuts);
        ctx.out.count("cuts_also_recovered_under_much_smaller_chunk_limits", s10.cuts_with_smaller_limits);
        ctx.out.count("zero_tail_images", s10.zero_tails);
        ctx.out.count("cases_with_truncation_disabled", s10.disabled_cases);
        ctx.out.count("continuations(5_writes+flush+restart)", s10.continuations);
        for (k, n) in &s10.cut_classes {
            ctx.out.count(&format!("cut:{}", k), *n);
        }
    }
}

pub fn replay(vj: &Value, is09: bool) -> Option<Viol> {
    let img = img_from_json(&vj["image"])?;
    let mut cfg = CfgSpec::from_json(&vj["cfg"]);
    let idir = ImageDir::new("replay");
    let mu = &vj["mutation"];
    println!("mutation: {}", mu);
    if is09 {
        let orig = img_from_json(&vj["original"])?;
        cfg.truncate = None;
        let (o, _) = open_and_read(&idir, &orig, &cfg);
        let Opened::Ok { state, entries: Ok(entries) } = o else {
            println!("original image does not open");
            return None;
        };
        let ci = CleanImage { img: orig.clone(), cfg: cfg.clone(), state, entries, ops: vec![], leftover: vec![] };
        let mut stats = C09Stats::default();
        if let Some(rc) = mu["removed_chunk"].as_u64() {
            let (res, _) = open_and_read(&idir, &img, &cfg);
            println!("removed chunk {}: {:?}", rc, res);
            return match res {
                Opened::Err(_) => None,
                _ => Some(c09_viol("missing_middle_chunk".into(), format!("{:?}", res), &ci, &img, mu.clone())),
            };
        }
        if mu["mode"].as_str() == Some("altered_after_open") {
            let mut viols = vec![];
            let mut r = Rng::new(1);
            c09_after_open(&ci, &mut r, &mut stats, &mut viols, util::now_s() + 60.0);
            return viols.into_iter().next();
        }
        let chunk = mu["chunk"].as_u64()?;
        let off = mu["offset"].as_u64()? as usize;
        let fidx = orig.iter().position(|f| f.0 == chunk)?;
        let parsed = refcodec::parse_file(&orig[fidx].1);
        let (rs, re, _) = parsed.recs.iter().find(|(s, e, _)| off >= *s && off < *e)?.clone();
        let fields = refcodec::decode_full(&orig[fidx].1[rs..re]).map(|d| d.fields).unwrap_or_default();
        let field = fields.iter().find(|(a, b, _)| off - rs >= *a && off - rs < *b).map(|f| f.2);
        c09_judge(&ci, &idir, &img, fidx, rs, field, mu.clone(), &mut stats)
    } else {
        let ci = CleanImage { img: img.clone(), cfg: cfg.clone(), state: MState::default(), entries: vec![], ops: vec![], leftover: vec![] };
        let mut stats = C10Stats::default();
        let mut r = Rng::new(1);
        let (good, bad_tail) = if let Some(c) = mu["cut_newest_chunk_at"].as_u64() {
            let g = mu["last_complete_record_ends_at"].as_u64()? as usize;
            (g, g as u64 != c)
        } else {
            (mu["zero_tail_from"].as_u64()? as usize, true)
        };
        if vj["truncate"].as_bool() == Some(false) {
            c10_disabled(&ci, &idir, &img, bad_tail, mu.clone(), &mut stats)
        } else {
            c10_enabled(&ci, &idir, &img, good, mu.clone(), &mut stats, &mut r, true)
        }
    }
}
