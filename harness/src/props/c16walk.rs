//! C16, second workload: a walk of public calls aimed at the state the STORE reports (no reference model), in
//! which `update_state` is an ordinary step. `update_state` takes any state, so it can move `last` / `purged` /
//! `committed` / `vote` back and forth; afterwards log ids that are already known to the index and the payload
//! cache are appended again (with a different payload size), truncated, purged, evicted, read, dumped, flushed
//! and replayed by a restart. The only oracle is "no call panics" (build with overflow checks and debug
//! assertions). What the calls return is not judged here: with an arbitrary `update_state` in the history there
//! is no sequential specification to compare with.

use crate::frame::Viol;
use crate::model::MState;
use crate::store::{CfgSpec, Op, Outcome, Outcome2, Store};
use crate::util::{self, Rng};
use serde_json::json;

pub struct WalkStats {
    pub calls: u64,
    pub update_states: u64,
    pub reappended_resident_ids: u64,
    pub restarts: u64,
    pub restarts_refused: u64,
    pub accounting_observations: u64,
    /// C06 along the walk: a call that returned an error changed state, readable entries or cache counters
    pub refused_calls_compared: u64,
    pub trace_left: Option<Viol>,
    /// C01 along the walk: an entry read back right after its append differs from what was appended
    pub read_backs: u64,
    pub read_back_wrong: Option<Viol>,
    pub kinds: std::collections::BTreeMap<String, u64>,
}

fn payload(r: &mut Rng, tag: u64) -> String {
    let n = match r.below(6) {
        0 => 0,
        1 => 1,
        2 => r.range(2, 9),
        3 => r.range(10, 40),
        4 => r.range(41, 300),
        _ => r.range(2, 20),
    } as usize;
    let mut s = format!("w{}:", tag);
    while s.len() < n {
        s.push('x');
    }
    s.truncate(n);
    s
}

fn around(r: &mut Rng, st: &MState, known: &[(u64, u64)]) -> u64 {
    let mut v: Vec<u64> = vec![0, 1, 2, u64::MAX, u64::MAX - 1, 1 << 32];
    for id in [st.last, st.purged, st.committed].iter().flatten() {
        for d in [-2i64, -1, 0, 1, 2] {
            v.push(id.1.wrapping_add(d as u64));
        }
    }
    for id in known.iter().rev().take(6) {
        v.push(id.1);
        v.push(id.1.wrapping_add(1));
    }
    // limit values are rare: most calls should land near the live log
    if r.chance(1, 8) { *r.pick(&v[..6]) } else { *r.pick(&v[6.min(v.len() - 1)..]) }
}

fn term_near(r: &mut Rng, st: &MState) -> u64 {
    let t = st.last.map(|l| l.0).unwrap_or(1);
    match r.below(10) {
        0 => 0,
        1 => u64::MAX,
        2 => t.saturating_sub(1),
        3 | 4 => t.saturating_add(1),
        _ => t,
    }
}

/// One walk. Returns the statistics and the first panic as a violation.
pub fn walk(seed: u64) -> (WalkStats, Option<Viol>) {
    let (s, p, _) = walk2(seed);
    (s, p)
}

/// The same walk with C15's accounting rule evaluated after every call: the item count and byte size that
/// stat() reports equal the number and total payload size of the resident entries (hook H1). Only the calling
/// thread inserts and removes cache entries (the worker merely moves the boundary), so the two reads are
/// consistent without stopping the worker. Third result: the first accounting disagreement.
pub fn walk2(seed: u64) -> (WalkStats, Option<Viol>, Option<Viol>) {
    let (s, p, a, _) = walk3(seed);
    (s, p, a)
}

/// Fourth result (C02): at every restart inside the walk - flush, acknowledgement, worker idle, drop, open - the
/// store must show the same state and the same entries as before it, whatever `update_state` calls preceded it.
pub fn walk3(seed: u64) -> (WalkStats, Option<Viol>, Option<Viol>, Option<Viol>) {
    walk_x(seed, false)
}

/// `legal`: apart from `update_state` (which only moves `last` / `committed` to ids of live entries, or changes the
/// vote) every call is one a Raft node could make: purge, commit and truncate name live entries, appended terms lie
/// above every term used before, cache limits are the defaults. Restart equivalence (C02) is judged on these walks only:
/// with arbitrary ids a purge can name a log id with a higher term and a lower index than live entries, after which
/// what is readable in-process and what a replay of the journal yields legitimately differ.
pub fn walk_legal(seed: u64) -> (WalkStats, Option<Viol>, Option<Viol>, Option<Viol>) {
    walk_x(seed, true)
}

fn walk_x(seed: u64, legal: bool) -> (WalkStats, Option<Viol>, Option<Viol>, Option<Viol>) {
    let mut r = Rng::new(seed);
    let mut stats = WalkStats { calls: 0, update_states: 0, reappended_resident_ids: 0, restarts: 0, restarts_refused: 0, accounting_observations: 0, refused_calls_compared: 0, trace_left: None, read_backs: 0, read_back_wrong: None, kinds: Default::default() };
    let dir = util::fresh_dir("c16w");
    let cfg = CfgSpec {
        max_records: Some(*r.pick(&[2usize, 3, 5, 8, 1000])),
        read_buf: Some(*r.pick(&[1usize, 64, 4096])),
        max_items: if legal { None } else { *r.pick(&[None, Some(0usize), Some(1), Some(3)]) },
        capacity: if legal { None } else { *r.pick(&[None, Some(0usize), Some(16), Some(200)]) },
        ..Default::default()
    };
    let mut inst = 1;
    let mut st = match Store::open(&dir, &cfg, inst) {
        Ok(s) => s,
        Err(_) => {
            util::remove_dir(&dir);
            return (stats, None, None, None);
        }
    };
    let mut log: Vec<String> = vec![];
    // log ids that were appended at some time (they may still be resident in the cache / index)
    let mut known: Vec<(u64, u64)> = vec![];
    let n_steps = r.range(20, 60);
    let mut viol: Option<(String, String)> = None;
    let mut acct: Option<(String, String, usize)> = None;
    let mut restart_diff: Option<(String, usize)> = None;
    let first = r.below(3) * r.below(5);
    let mut top_term = 1u64;
    // `update_state` moved `last` below indexed entries / a purge happened after that: from then on the chunk bookkeeping
    // (a chunk is obsolete when the last log id recorded at its close is purged) no longer covers those entries, and a
    // restart may legitimately show fewer of them than the cache did; no comparison after that point
    let mut last_moved_back = false;
    let mut no_restart_claim = false;
    for step in 0..n_steps {
        let s = st.state();
        let k = r.below(100);
        // what a refused call must leave untouched (C06): state, readable entries, cache counters
        let snap_before = {
            let rl = st.rl();
            let stt = rl.stat();
            (s.clone(), st.read_all(), stt.payload_cache_item_count, stt.payload_cache_size)
        };
        // ids of the entries that are live right now (legal mode names only these)
        let live: Vec<(u64, u64)> = if legal {
            match st.read_all() {
                Outcome2::Ok(v) => v.into_iter().map(|e| e.0).collect(),
                _ => vec![],
            }
        } else {
            vec![]
        };
        if legal && k >= 30 && k < 70 && live.is_empty() && !(k < 42) {
            // nothing to name: make it an append instead
            let next_ix = match (s.last, s.purged) {
                (Some(l), _) => l.1.wrapping_add(1),
                (None, Some(p)) => p.1.wrapping_add(1),
                (None, None) => first,
            };
            let id = (top_term.max(s.last.map(|l| l.0).unwrap_or(1)), next_ix);
            let o = st.write(&Op::Append(vec![(id, payload(&mut r, step))]));
            if o.is_ok() {
                known.push(id);
            }
            log.push(format!("append[{:?}]", id));
            stats.calls += 1;
            if let Outcome::Panic(p) = o {
                viol = Some(("append".into(), p));
                break;
            }
            continue;
        }
        let (name, out): (&str, Outcome) = if k < 30 {
            // append: mostly the id right after the reported last (so that it is accepted), sometimes elsewhere
            let next_ix = match (s.last, s.purged) {
                (Some(l), _) => l.1.wrapping_add(1),
                (None, Some(p)) => p.1.wrapping_add(1),
                (None, None) => first,
            };
            let t = if legal { top_term.max(s.last.map(|l| l.0).unwrap_or(1)) } else if r.chance(4, 5) { s.last.map(|l| l.0).unwrap_or(1).max(1) } else { term_near(&mut r, &s) };
            let ix = if legal || r.chance(9, 10) { next_ix } else { around(&mut r, &s, &known) };
            let n = if r.chance(1, 4) { r.range(2, 3) } else { 1 };
            let es: Vec<((u64, u64), String)> = (0..n).map(|j| ((t, ix.wrapping_add(j)), payload(&mut r, step * 10 + j))).collect();
            for (id, _) in &es {
                if known.contains(id) {
                    stats.reappended_resident_ids += 1;
                }
            }
            let o = st.write(&Op::Append(es.clone()));
            if o.is_ok() {
                for (id, _) in &es {
                    known.push(*id);
                }
                // what was just appended reads back as appended (a read that fails is not judged here: with tiny caches
                // and arbitrary ids the known finding D7 applies)
                if stats.read_back_wrong.is_none() {
                    for (id, pl) in &es {
                        if id.1 == u64::MAX {
                            continue; // read(from, to) cannot name index u64::MAX (to is exclusive)
                        }
                        if let Outcome2::Ok(v) = st.read(id.1, id.1.saturating_add(1)) {
                            stats.read_backs += 1;
                            if v.len() != 1 || v[0].0 != *id || v[0].1 != *pl {
                                stats.read_back_wrong = Some(Viol {
                                    prop: "C01".into(),
                                    sig: "C01:walk:read_back_differs".into(),
                                    text: format!("append of {:?} ({} B) was accepted; read({},{}) right after it returned {:?} ; calls so far: {}", id, pl.len(), id.1, id.1.saturating_add(1), v.iter().map(|e| (e.0, crate::model::short(&e.1))).collect::<Vec<_>>(), log.iter().rev().take(10).rev().cloned().collect::<Vec<_>>().join(" ; ")),
                                    replay: json!({"kind": "c01w", "seed": seed.to_string(), "legal": legal}),
                                });
                            }
                        }
                    }
                }
            }
            log.push(Op::Append(es).brief());
            ("append", o)
        } else if k < 42 {
            // update_state: a state built from the reported one with one to three fields moved
            let mut ns = s.clone();
            let pick_id = |r: &mut Rng, known: &[(u64, u64)], s: &MState| -> Option<(u64, u64)> {
                match r.below(8) {
                    0 => None,
                    1 | 2 | 3 if !known.is_empty() => Some(*r.pick(known)),
                    4 => Some((term_near(r, s), around(r, s, known))),
                    5 => s.last.map(|l| (l.0, l.1.saturating_sub(r.range(1, 3)))),
                    6 => s.last.map(|l| (l.0, l.1.saturating_add(r.range(1, 3)))),
                    _ => s.last,
                }
            };
            if legal {
                match r.below(3) {
                    0 if !live.is_empty() => {
                        ns.last = Some(*r.pick(&live));
                        last_moved_back = true;
                        // whatever is appended next must lie above every id used so far
                        top_term = known.iter().map(|k| k.0).max().unwrap_or(1).max(top_term).saturating_add(1);
                    }
                    1 if !live.is_empty() => ns.committed = Some(*r.pick(&live)),
                    _ => ns.vote = Some((s.vote.map(|v| v.0).unwrap_or(0).saturating_add(r.below(2)), r.below(4))),
                }
            }
            for _ in 0..(if legal { 0 } else { r.range(1, 3) }) {
                match r.below(5) {
                    0 | 1 => ns.last = pick_id(&mut r, &known, &s),
                    2 => ns.purged = pick_id(&mut r, &known, &s),
                    3 => ns.committed = pick_id(&mut r, &known, &s),
                    _ => ns.vote = if r.chance(1, 4) { None } else { Some((term_near(&mut r, &s), r.below(4))) },
                }
            }
            stats.update_states += 1;
            log.push(format!("update_state(last={:?},purged={:?},committed={:?},vote={:?})", ns.last, ns.purged, ns.committed, ns.vote));
            ("update_state", st.write(&Op::UpdateState(ns)))
        } else if k < 52 {
            let ix = if legal {
                top_term = known.iter().map(|k| k.0).max().unwrap_or(1).max(top_term).saturating_add(1);
                r.pick(&live).1
            } else if r.chance(2, 3) {
                s.last.map(|l| l.1.saturating_sub(r.below(3))).unwrap_or(0)
            } else {
                around(&mut r, &s, &known)
            };
            log.push(format!("truncate({})", ix));
            ("truncate", st.write(&Op::Truncate(ix)))
        } else if k < 62 {
            let id = if legal {
                // an entry at or below last (after update_state moved last back, entries above it may still be indexed)
                let c: Vec<(u64, u64)> = live.iter().copied().filter(|i| Some(*i) <= s.last).collect();
                if c.is_empty() { live[0] } else { *r.pick(&c) }
            } else if r.chance(2, 3) && !known.is_empty() {
                *r.pick(&known)
            } else {
                (term_near(&mut r, &s), around(&mut r, &s, &known))
            };
            if last_moved_back {
                no_restart_claim = true;
            }
            log.push(format!("purge{:?}", id));
            ("purge", st.write(&Op::Purge(id)))
        } else if k < 67 {
            let id = if legal { *r.pick(&live) } else if r.chance(2, 3) && !known.is_empty() { *r.pick(&known) } else { (term_near(&mut r, &s), around(&mut r, &s, &known)) };
            log.push(format!("commit{:?}", id));
            ("commit", st.write(&Op::Commit(id)))
        } else if k < 70 {
            let v = if legal { (s.vote.map(|v| v.0).unwrap_or(0).saturating_add(r.below(2)), r.below(4)) } else { (term_near(&mut r, &s), r.below(4)) };
            log.push(format!("vote{:?}", v));
            ("vote", st.write(&Op::Vote(v)))
        } else if k < 78 {
            let (a, b) = (around(&mut r, &s, &known), around(&mut r, &s, &known));
            log.push(format!("read({},{})", a, b));
            let o = match st.read(a, b) {
                Outcome2::Ok(_) => Outcome::Ok(None),
                Outcome2::Err(e) => Outcome::Err(e),
                Outcome2::Panic(p) => Outcome::Panic(p),
            };
            ("read", o)
        } else if k < 84 {
            let m = *r.pick(&[0u8, 1, 2, 3, 5]);
            log.push(format!("misc{}", m));
            ("misc", st.misc(m))
        } else if k < 90 {
            log.push("flush+idle+drain".into());
            let _ = st.sync();
            let rl = st.rl();
            let o = match crate::store::guarded(|| rl.drain_cache_evictable()) {
                Ok(()) => Outcome::Ok(None),
                Err(p) => Outcome::Panic(p),
            };
            ("drain_cache_evictable", o)
        } else if k < 94 {
            log.push("flush".into());
            ("flush", st.flush(r.chance(1, 2)).1)
        } else {
            // restart: replaying the journal written so far must not panic either (it may be refused)
            log.push("restart".into());
            let synced = st.sync().is_ok();
            let before = if synced { Some((st.state(), st.read_all())) } else { None };
            st.close();
            inst += 1;
            stats.restarts += 1;
            match Store::open(&dir, &cfg, inst) {
                Ok(s2) => {
                    st = s2;
                    if let (Some((bs, Outcome2::Ok(be))), None, false) = (&before, &restart_diff, no_restart_claim) {
                        let after = (st.state(), st.read_all());
                        if &after.0 != bs {
                            restart_diff = Some((format!("state before the restart {:?}, after it {:?}", bs, after.0), log.len()));
                        } else if let Outcome2::Ok(ae) = &after.1 {
                            if ae != be {
                                restart_diff = Some((format!("same state, but read(0,MAX) returned {} entries before the restart and {} after it: {}", be.len(), ae.len(), crate::props::seq::diff_entries(ae, be)), log.len()));
                            }
                        } else {
                            restart_diff = Some((format!("read(0,MAX) worked before the restart ({} entries) and fails after it", be.len()), log.len()));
                        }
                    }
                    ("restart", Outcome::Ok(None))
                }
                Err(Outcome::Panic(p)) => {
                    viol = Some(("open_after_restart".into(), p));
                    break;
                }
                Err(_) => {
                    stats.restarts_refused += 1;
                    break;
                }
            }
        };
        stats.calls += 1;
        *stats.kinds.entry(name.to_string()).or_insert(0) += 1;
        if matches!(out, Outcome::Err(_)) && matches!(name, "append" | "truncate" | "purge" | "commit" | "vote" | "update_state") && st.rl.is_some() && stats.trace_left.is_none() {
            // (a batch append applies the entries before the refused one: compared only for single-entry calls)
            let single = name != "append" || log.last().map(|l| !l.contains("B,(")).unwrap_or(true);
            if single {
                if let Outcome2::Ok(be) = &snap_before.1 {
                    let rl = st.rl();
                    let stt = rl.stat();
                    let after = (st.state(), st.read_all(), stt.payload_cache_item_count, stt.payload_cache_size);
                    stats.refused_calls_compared += 1;
                    let diff = if after.0 != snap_before.0 {
                        Some(format!("state {:?} -> {:?}", snap_before.0, after.0))
                    } else if let Outcome2::Ok(ae) = &after.1 {
                        if ae != be {
                            Some(format!("read(0,MAX): {} entries before, {} after: {}", be.len(), ae.len(), crate::props::seq::diff_entries(ae, be)))
                        } else if (after.2, after.3) != (snap_before.2, snap_before.3) {
                            Some(format!("cache items/bytes {}/{} -> {}/{}", snap_before.2, snap_before.3, after.2, after.3))
                        } else {
                            None
                        }
                    } else {
                        Some("read(0,MAX) worked before the refused call and fails after it".to_string())
                    };
                    if let Some(d) = diff {
                        stats.trace_left = Some(Viol {
                            prop: "C06".into(),
                            sig: format!("C06:walk:trace_left:{}", name),
                            text: format!("{} returned an error ({}) and yet: {} ; calls so far: {}", name, out.brief(), d, log.iter().rev().take(12).rev().cloned().collect::<Vec<_>>().join(" ; ")),
                            replay: json!({"kind": "c06w", "seed": seed.to_string(), "legal": legal}),
                        });
                    }
                }
            }
        }
        if let Outcome::Panic(p) = out {
            viol = Some((name.to_string(), p));
            break;
        }
        if st.rl.is_some() && acct.is_none() {
            let rl = st.rl();
            let sres = crate::store::guarded(|| {
                let s = rl.stat();
                let (_, resident) = rl.verif_cache_resident();
                (s.payload_cache_item_count, s.payload_cache_size, resident)
            });
            if let Ok((items, size, resident)) = sres {
                let bytes: u64 = resident.iter().map(|x| x.1).sum();
                if items != resident.len() as u64 {
                    acct = Some(("item_count".into(), format!("after {}: stat reports {} cached items, {} are resident", name, items, resident.len()), log.len()));
                } else if size != bytes {
                    acct = Some(("size".into(), format!("after {}: stat reports cache size {} bytes, resident payloads total {} bytes ({} items)", name, size, bytes, resident.len()), log.len()));
                }
                stats.accounting_observations += 1;
            }
        }
        // reading everything back must not panic
        if st.rl.is_some() {
            if let Outcome2::Panic(p) = st.read_all() {
                viol = Some((format!("read_after_{}", name), p));
                break;
            }
        }
    }
    if st.rl.is_some() {
        st.close();
    }
    util::remove_dir(&dir);
    let v = viol.map(|(what, p)| {
        let loc = p.rsplit(" @ ").next().unwrap_or("?").to_string();
        Viol {
            prop: "C16".into(),
            sig: format!("C16:panic:walk:{}:{}", what, loc),
            text: format!("{} panicked: {} ; calls so far: {}", what, p, log.iter().rev().take(14).rev().cloned().collect::<Vec<_>>().join(" ; ")),
            replay: json!({"kind": "c16w", "seed": seed.to_string(), "cfg": cfg.to_json(), "calls": log}),
        }
    });
    let a = acct.map(|(what, text, at)| Viol {
        prop: "C15".into(),
        sig: format!("C15:walk:{}", what),
        text: format!("{} ; calls so far: {}", text, log[..at].iter().rev().take(14).rev().cloned().collect::<Vec<_>>().join(" ; ")),
        replay: json!({"kind": "c15w", "seed": seed.to_string(), "cfg": cfg.to_json(), "calls": log}),
    });
    let c2 = restart_diff.map(|(text, at)| Viol {
        prop: "C02".into(),
        sig: "C02:walk:changed_by_restart".into(),
        text: format!("{} ; calls so far: {}", text, log[..at].iter().rev().take(14).rev().cloned().collect::<Vec<_>>().join(" ; ")),
        replay: json!({"kind": "c02w", "seed": seed.to_string(), "cfg": cfg.to_json(), "calls": log}),
    });
    (stats, v, a, c2)
}

pub fn replay01(v: &serde_json::Value) -> Option<Viol> {
    let seed: u64 = v["seed"].as_str()?.parse().ok()?;
    walk_x(seed, v["legal"].as_bool().unwrap_or(false)).0.read_back_wrong
}

pub fn replay06(v: &serde_json::Value) -> Option<Viol> {
    let seed: u64 = v["seed"].as_str()?.parse().ok()?;
    walk_x(seed, v["legal"].as_bool().unwrap_or(false)).0.trace_left
}

pub fn replay02(v: &serde_json::Value) -> Option<Viol> {
    let seed: u64 = v["seed"].as_str()?.parse().ok()?;
    walk_legal(seed).3
}

pub fn replay15(v: &serde_json::Value) -> Option<Viol> {
    let seed: u64 = v["seed"].as_str()?.parse().ok()?;
    walk2(seed).2
}

pub fn replay(v: &serde_json::Value) -> Option<Viol> {
    let seed: u64 = v["seed"].as_str()?.parse().ok()?;
    walk(seed).1
}
