//! C13: a directory is owned by at most one RaftLog or Dump at a time.
//!
//! Threads of one process (online owner counter) and several child processes (ownership
//! intervals on CLOCK_MONOTONIC, merged offline) hammer open / hold / drop on a directory
//! that holds data and has nothing pending.

use std::sync::Arc;
use std::sync::atomic::{AtomicBool, AtomicI64, AtomicU64, Ordering};

use raft_log::{Dump, DumpApi, RaftLog};
use serde_json::json;

use crate::frame::{Ctx, Tier, Viol};
use crate::props::image::{self, CleanImage};
use crate::shadow::image_hash;
use crate::store::{self, CfgSpec, V, guarded};
use crate::util::{self, Rng};

fn v(sig: &str, text: String, replay: serde_json::Value) -> Viol {
    Viol { prop: "C13".into(), sig: format!("C13:{}", sig), text, replay }
}

enum Owner {
    Log(RaftLog<V>),
    Dump(Dump<V>),
}

/// One attempt to become the owner. Ok(owner) / Err(message) / panic text.
fn attempt(dir: &str, cfg: &CfgSpec, as_dump: bool) -> Result<Result<Owner, String>, String> {
    let c = cfg.to_config(dir);
    guarded(|| if as_dump { Dump::<V>::new(c).map(Owner::Dump).map_err(|e| e.to_string()) } else { RaftLog::<V>::open(c).map(Owner::Log).map_err(|e| e.to_string()) })
}

fn use_owner(o: &Owner, expect_entries: usize) -> Result<(), String> {
    match o {
        Owner::Log(rl) => {
            let n = rl.read(0, u64::MAX).collect::<Result<Vec<_>, _>>().map_err(|e| e.to_string())?.len();
            if n != expect_entries {
                return Err(format!("owner read {} entries, the directory holds {}", n, expect_entries));
            }
        }
        Owner::Dump(d) => {
            d.write_to_string().map_err(|e| e.to_string())?;
        }
    }
    Ok(())
}

#[derive(Default)]
pub struct C13Stats {
    pub attempts: u64,
    pub acquisitions: u64,
    pub refusals: u64,
    pub as_dump: u64,
    pub max_owners: i64,
    pub image_checks: u64,
}

/// Threads in this process.
pub fn thread_round(ci: &CleanImage, nthreads: usize, attempts_per_thread: u64, seed: u64, stats: &mut C13Stats) -> Option<Viol> {
    let dir = util::fresh_dir("c13t");
    store::write_image(&dir, &ci.img);
    let want_hash = image_hash(&ci.img);
    let owners = Arc::new(AtomicI64::new(0));
    let max_owners = Arc::new(AtomicI64::new(0));
    let acq = Arc::new(AtomicU64::new(0));
    let refu = Arc::new(AtomicU64::new(0));
    let dumps = Arc::new(AtomicU64::new(0));
    let imgchecks = Arc::new(AtomicU64::new(0));
    let stop = Arc::new(AtomicBool::new(false));
    let problem: Arc<std::sync::Mutex<Option<(String, String)>>> = Arc::new(std::sync::Mutex::new(None));
    let seqlog: Arc<std::sync::Mutex<Vec<u8>>> = Arc::new(std::sync::Mutex::new(vec![]));
    let nent = ci.entries.len();
    let mut handles = vec![];
    for t in 0..nthreads {
        let dir = dir.clone();
        let cfg = ci.cfg.clone();
        let (owners, max_owners, acq, refu, dumps, stop, problem, seqlog, imgchecks) = (owners.clone(), max_owners.clone(), acq.clone(), refu.clone(), dumps.clone(), stop.clone(), problem.clone(), seqlog.clone(), imgchecks.clone());
        handles.push(
            std::thread::Builder::new()
                .name(format!("c13-contender-{}", t))
                .spawn(move || {
                    let mut r = Rng::new(seed ^ (t as u64 * 7919));
                    for _ in 0..attempts_per_thread {
                        if stop.load(Ordering::Relaxed) {
                            break;
                        }
                        let as_dump = r.chance(1, 3);
                        match attempt(&dir, &cfg, as_dump) {
                            Err(p) => {
                                *problem.lock().unwrap() = Some(("panic_in_open".into(), format!("open panicked under contention: {}", p)));
                                stop.store(true, Ordering::Relaxed);
                            }
                            Ok(Ok(o)) => {
                                // ownership interval, shrunk: starts after open returned, ends before drop starts
                                let n = owners.fetch_add(1, Ordering::SeqCst) + 1;
                                max_owners.fetch_max(n, Ordering::SeqCst);
                                acq.fetch_add(1, Ordering::Relaxed);
                                if as_dump {
                                    dumps.fetch_add(1, Ordering::Relaxed);
                                }
                                seqlog.lock().unwrap().push(t as u8);
                                if n > 1 {
                                    *problem.lock().unwrap() = Some(("two_owners".into(), format!("{} owners of the directory at the same time (thread {} got {} while another owner was alive)", n, t, if as_dump { "a Dump" } else { "a RaftLog" })));
                                    stop.store(true, Ordering::Relaxed);
                                }
                                if let Err(e) = use_owner(&o, nent) {
                                    *problem.lock().unwrap() = Some(("owner_cannot_read".into(), e));
                                    stop.store(true, Ordering::Relaxed);
                                }
                                for _ in 0..r.below(200) {
                                    std::hint::spin_loop();
                                }
                                if r.chance(1, 4) {
                                    std::thread::yield_now();
                                }
                                owners.fetch_sub(1, Ordering::SeqCst);
                                drop(o);
                            }
                            Ok(Err(_e)) => {
                                refu.fetch_add(1, Ordering::Relaxed);
                                // a refused attempt must not have touched any chunk file; owners only read,
                                // so the image is constant throughout
                                let now = store::read_image(&dir);
                                imgchecks.fetch_add(1, Ordering::Relaxed);
                                if image_hash(&now) != want_hash {
                                    *problem.lock().unwrap() = Some(("chunk_files_changed".into(), format!("after a refused attempt the chunk files differ from the original image: {:?}", now.iter().map(|f| (f.0, f.1.len())).collect::<Vec<_>>())));
                                    stop.store(true, Ordering::Relaxed);
                                }
                            }
                        }
                    }
                })
                .expect("spawn contender"),
        );
    }
    for h in handles {
        let _ = h.join();
    }
    stats.attempts += nthreads as u64 * attempts_per_thread;
    stats.acquisitions += acq.load(Ordering::Relaxed);
    stats.refusals += refu.load(Ordering::Relaxed);
    stats.as_dump += dumps.load(Ordering::Relaxed);
    stats.image_checks += imgchecks.load(Ordering::Relaxed);
    stats.max_owners = stats.max_owners.max(max_owners.load(Ordering::Relaxed));
    let replay = json!({"kind": "c13", "mode": "threads", "threads": nthreads, "attempts": attempts_per_thread, "seed": seed.to_string(), "cfg": ci.cfg.to_json(), "image": ci.img.iter().map(|(c, b)| json!([c, util::hex(b)])).collect::<Vec<_>>()});
    let mut res = problem.lock().unwrap().take().map(|(s, t)| v(&s, t, replay.clone()));
    if res.is_none() {
        // everybody is gone: the next attempt succeeds
        match attempt(&dir, &ci.cfg, false) {
            Ok(Ok(o)) => {
                if let Err(e) = use_owner(&o, nent) {
                    res = Some(v("final_open_wrong", e, replay.clone()));
                }
            }
            Ok(Err(e)) => res = Some(v("final_open_refused", format!("all contenders dropped, open still fails: {}", e), replay.clone())),
            Err(p) => res = Some(v("panic_in_open", p, replay.clone())),
        }
        if image_hash(&store::read_image(&dir)) != want_hash && res.is_none() {
            res = Some(v("chunk_files_changed", "chunk files differ from the original image at the end".into(), replay));
        }
    }
    let _ = seqlog;
    util::remove_dir(&dir);
    res
}

/// Child process body: `rlmon c13-child <dir> <attempts> <seed> <logfile> <cfg-json>`
pub fn child_main(args: &[String]) -> i32 {
    let dir = &args[2];
    let attempts: u64 = args[3].parse().unwrap_or(100);
    let seed: u64 = args[4].parse().unwrap_or(1);
    let logf = &args[5];
    let cfg = CfgSpec::from_json(&serde_json::from_str(&args[6]).unwrap_or(json!({})));
    let mut r = Rng::new(seed);
    let mut log = String::new();
    for _ in 0..attempts {
        let as_dump = r.chance(1, 3);
        match attempt(dir, &cfg, as_dump) {
            Err(p) => log.push_str(&format!("P {}\n", p.replace('\n', " "))),
            Ok(Ok(o)) => {
                let t0 = util::now_ns();
                let used = use_owner(&o, usize::MAX);
                for _ in 0..r.below(300) {
                    std::hint::spin_loop();
                }
                let t1 = util::now_ns();
                drop(o);
                log.push_str(&format!("A {} {} {}\n", t0, t1, if as_dump { "dump" } else { "log" }));
                if let Err(e) = used {
                    if !e.contains("the directory holds") {
                        log.push_str(&format!("E {}\n", e.replace('\n', " ")));
                    }
                }
            }
            Ok(Err(_)) => log.push_str("R\n"),
        }
    }
    if std::fs::write(logf, log).is_err() {
        return 4;
    }
    0
}

/// Several processes.
pub fn process_round(ci: &CleanImage, nprocs: usize, attempts: u64, seed: u64, stats: &mut C13Stats) -> Result<Option<Viol>, String> {
    let dir = util::fresh_dir("c13p");
    store::write_image(&dir, &ci.img);
    let want_hash = image_hash(&ci.img);
    let exe = std::env::current_exe().map_err(|e| e.to_string())?;
    let mut kids = vec![];
    for p in 0..nprocs {
        let logf = format!("{}/child-{}.log", dir, p);
        let c = std::process::Command::new(&exe)
            .args(["c13-child", &dir, &attempts.to_string(), &(seed ^ (p as u64 * 104729)).to_string(), &logf, &ci.cfg.to_json().to_string()])
            .stdout(std::process::Stdio::null())
            .stderr(std::process::Stdio::null())
            .spawn()
            .map_err(|e| e.to_string())?;
        kids.push((c, logf));
    }
    let mut intervals: Vec<(u64, u64, usize)> = vec![];
    let mut problems = vec![];
    for (p, (mut c, logf)) in kids.into_iter().enumerate() {
        let st = c.wait().map_err(|e| e.to_string())?;
        if !st.success() {
            return Err(format!("child {} exited with {:?}", p, st.code()));
        }
        let text = std::fs::read_to_string(&logf).map_err(|e| e.to_string())?;
        for l in text.lines() {
            let mut it = l.split(' ');
            match it.next() {
                Some("A") => {
                    let a: u64 = it.next().and_then(|x| x.parse().ok()).unwrap_or(0);
                    let b: u64 = it.next().and_then(|x| x.parse().ok()).unwrap_or(0);
                    intervals.push((a, b, p));
                    stats.acquisitions += 1;
                    if it.next() == Some("dump") {
                        stats.as_dump += 1;
                    }
                }
                Some("R") => stats.refusals += 1,
                Some("P") => problems.push(("panic_in_open", l.to_string())),
                Some("E") => problems.push(("owner_cannot_read", l.to_string())),
                _ => {}
            }
        }
    }
    stats.attempts += nprocs as u64 * attempts;
    let replay = json!({"kind": "c13", "mode": "processes", "procs": nprocs, "attempts": attempts, "seed": seed.to_string(), "cfg": ci.cfg.to_json(), "image": ci.img.iter().map(|(c, b)| json!([c, util::hex(b)])).collect::<Vec<_>>()});
    let mut res = problems.into_iter().next().map(|(s, t)| v(s, t, replay.clone()));
    intervals.sort();
    for w in intervals.windows(2) {
        if w[1].0 < w[0].1 && res.is_none() {
            res = Some(v("two_owners", format!("process {} owned the directory during [{}, {}] ns and process {} during [{}, {}] ns: the intervals overlap", w[0].2, w[0].0, w[0].1, w[1].2, w[1].0, w[1].1), replay.clone()));
        }
    }
    let img_now: Vec<(u64, Vec<u8>)> = store::read_image(&dir);
    if image_hash(&img_now) != want_hash && res.is_none() {
        res = Some(v("chunk_files_changed", "chunk files differ from the original image after the contention round".into(), replay.clone()));
    }
    if res.is_none() {
        match attempt(&dir, &ci.cfg, false) {
            Ok(Ok(_)) => {}
            Ok(Err(e)) => res = Some(v("final_open_refused", format!("all contenders exited, open still fails: {}", e), replay.clone())),
            Err(p) => res = Some(v("panic_in_open", p, replay)),
        }
    }
    util::remove_dir(&dir);
    Ok(res)
}

/// A live, WRITING owner. Its caller thread and its worker are stepped through their file-system calls by
/// the gate; at every point where they are parked - in particular between the creation of a new chunk file
/// and the write of its head record, and between a write and its sync - a RaftLog::open and a Dump::new are
/// attempted from this thread. Both must be refused and must leave every chunk file byte-identical.
pub fn writer_round(seed: u64, stats: &mut C13Stats) -> Result<Option<Viol>, String> {
    use crate::store::{Op, Store};
    use crate::trace::{self, Role, Sk};
    let dir = util::fresh_dir("c13w");
    let mut r = Rng::new(seed);
    let cfg = CfgSpec { max_records: Some(*r.pick(&[2usize, 3, 4])), read_buf: Some(64), ..Default::default() };
    let nops = r.range(8, 16);
    trace::reset_acks();
    trace::begin(&dir);
    trace::gate_enable(Role::Aux.bit() | Role::Worker.bit(), Sk::Write.bit() | Sk::Sync.bit() | Sk::Unlink.bit());
    let done = Arc::new(AtomicBool::new(false));
    let owner_err: Arc<std::sync::Mutex<Option<String>>> = Arc::new(std::sync::Mutex::new(None));
    let (d2, e2, dir2, cfg2) = (done.clone(), owner_err.clone(), dir.clone(), cfg.clone());
    let owner = std::thread::Builder::new()
        .name("rlmon_aux_owner".into())
        .spawn(move || {
            let mut r = Rng::new(seed ^ 0x77);
            match Store::open(&dir2, &cfg2, 1) {
                Ok(mut st) => {
                    for i in 0..nops {
                        let o = st.write(&Op::Append(vec![((1, i), format!("owner-{}", i))]));
                        if !o.is_ok() {
                            *e2.lock().unwrap() = Some(format!("owner append failed: {}", o.brief()));
                            break;
                        }
                        if r.chance(1, 3) {
                            let _ = st.flush(false);
                        }
                        if i == nops / 2 {
                            let _ = st.write(&Op::Purge((1, i / 2)));
                            let _ = st.flush(false);
                        }
                    }
                    let _ = st.flush(false);
                    st.close();
                }
                Err(o) => *e2.lock().unwrap() = Some(format!("owner open failed: {}", o.brief())),
            }
            d2.store(true, Ordering::SeqCst);
        })
        .map_err(|e| e.to_string())?;
    let replay = json!({"kind": "c13", "mode": "writer", "seed": seed.to_string()});
    let mut res: Option<Viol> = None;
    let t0 = util::now_s();
    let mut parked_points = 0u64;
    while !done.load(Ordering::SeqCst) {
        if util::now_s() - t0 > 20.0 {
            trace::gate_disable();
            let _ = owner.join();
            let _ = trace::end();
            util::remove_dir(&dir);
            return Err("writer round did not finish".into());
        }
        let lanes = trace::gate_all_lanes();
        let waiting: Vec<(i32, crate::trace::Point)> = lanes.iter().filter_map(|(t, w, _)| w.clone().map(|p| (*t, p))).collect();
        if waiting.is_empty() {
            std::thread::yield_now();
            continue;
        }
        parked_points += 1;
        if res.is_none() {
            // Attribution by thread: whatever this (contender) thread does to a chunk file is recorded in the
            // trace under its tid, independent of what the owner's threads are doing meanwhile.
            let me = trace::current_tid();
            let ev0 = trace::ev_count();
            // byte comparison is only meaningful when every owner thread is parked
            let all_parked = lanes.iter().all(|(_, w, _)| w.is_some());
            let before = if all_parked { Some(store::read_image(&dir)) } else { None };
            for as_dump in [false, true] {
                stats.attempts += 1;
                match attempt(&dir, &cfg, as_dump) {
                    Ok(Err(_)) => stats.refusals += 1,
                    Ok(Ok(_)) => {
                        res = Some(v("two_owners", format!("a {} was opened while a live RaftLog owned and was writing the directory (owner parked at {:?})", if as_dump { "Dump" } else { "second RaftLog" }, waiting[0].1.kind), replay.clone()));
                    }
                    Err(p) => res = Some(v("panic_in_open", p, replay.clone())),
                }
            }
            let mine: Vec<String> = {
                let g = trace::lock();
                g.as_ref().map(|t| t.evs.iter().skip(ev0).filter(|e| e.tid == me && e.k.mutates()).map(|e| e.k.short()).collect()).unwrap_or_default()
            };
            stats.image_checks += 1;
            if !mine.is_empty() && res.is_none() {
                res = Some(v(
                    "refused_attempt_modified_chunk_files",
                    format!("a refused attempt to open the directory of a live, writing owner (parked at its {:?} call) performed {:?} on the owner's chunk files", waiting[0].1.kind, mine),
                    replay.clone(),
                ));
            }
            if let Some(b) = before {
                let after = store::read_image(&dir);
                if after != b && res.is_none() {
                    res = Some(v("refused_attempt_modified_chunk_files", "chunk files differ before/after refused attempts while all owner threads were parked".into(), replay.clone()));
                }
            }
        }
        for (t, _) in &waiting {
            trace::gate_grant(*t, 1);
        }
    }
    trace::gate_disable();
    let _ = owner.join();
    let _ = trace::end();
    stats.acquisitions += 1;
    if let Some(e) = owner_err.lock().unwrap().take() {
        if res.is_none() {
            res = Some(v("owner_disturbed", format!("the owner failed while others attempted to open its directory: {}", e), replay.clone()));
        }
    }
    if res.is_none() {
        match attempt(&dir, &cfg, false) {
            Ok(Ok(_)) => {}
            Ok(Err(e)) => res = Some(v("final_open_refused", format!("owner gone, open fails: {}", e), replay.clone())),
            Err(p) => res = Some(v("panic_in_open", p, replay)),
        }
    }
    util::remove_dir(&dir);
    let _ = parked_points;
    Ok(res)
}

/// "Once the owner is dropped the next attempt succeeds" - also when a child process forked while the owner was
/// alive still holds inherited copies of the owner's descriptors (a forked helper that has not exec'ed yet).
pub fn fork_round(ci: &CleanImage) -> Result<Option<Viol>, String> {
    let dir = util::fresh_dir("c13f");
    store::write_image(&dir, &ci.img);
    let replay = json!({"kind": "c13", "mode": "fork"});
    let owner = match attempt(&dir, &ci.cfg, false) {
        Ok(Ok(o)) => o,
        other => {
            util::remove_dir(&dir);
            return Err(format!("owner could not open: {:?}", other.map(|r| r.map(|_| ()).err())));
        }
    };
    // the child only sleeps and exits: async-signal-safe calls only
    let pid = unsafe { libc::fork() };
    if pid < 0 {
        drop(owner);
        util::remove_dir(&dir);
        return Err("fork failed".into());
    }
    if pid == 0 {
        unsafe {
            libc::sleep(30);
            libc::_exit(0);
        }
    }
    drop(owner);
    let res = match attempt(&dir, &ci.cfg, false) {
        Ok(Ok(o)) => {
            drop(o);
            None
        }
        Ok(Err(e)) => Some(v("still_locked_after_owner_dropped", format!("the owner was dropped, but a child process forked while it was alive still holds inherited descriptors, and the next open fails: {}", e), replay)),
        Err(p) => Some(v("panic_in_open", p, replay)),
    };
    unsafe {
        libc::kill(pid, libc::SIGKILL);
        let mut st = 0;
        libc::waitpid(pid, &mut st, 0);
    }
    util::remove_dir(&dir);
    Ok(res)
}

pub fn run_shard(ctx: &mut Ctx) {
    let mut r = Rng::new(ctx.shard_seed());
    let mut stats = C13Stats::default();
    // (a) a writing owner stepped through its file-system calls, contenders at every parked point
    ctx.begin_phase(0.2);
    let n_writer = if ctx.tier == Tier::Quick { 6 } else { 60 };
    for _ in 0..n_writer {
        if !ctx.time_left() {
            break;
        }
        let before = stats.refusals;
        match writer_round(r.next(), &mut stats) {
            Ok(Some(vi)) => ctx.out.viol(vi),
            Ok(None) => {}
            Err(e) => ctx.out.inconclusive.push(e),
        }
        ctx.out.count("writer_rounds", 1);
        ctx.out.count("attempts_against_a_parked_writing_owner", stats.refusals - before);
    }
    ctx.end_phase();
    // (b) hand-over while the previous owner is still being dropped (its worker parked with queued work)
    ctx.begin_phase(0.25);
    let n_handover = if ctx.tier == Tier::Quick { 10 } else { 100 };
    for i in 0..n_handover {
        if !ctx.time_left() {
            break;
        }
        let mut case = crate::props::c14::gen_case(r.next(), 5_000_000 + i);
        case.probe = true;
        case.hold_ms = 50;
        match crate::props::c14::run_one(&case) {
            Ok((s, vi)) => {
                ctx.out.count("open_attempts_refused_while_previous_owner_was_being_dropped", s.probes_refused_during_drop);
                if let Some(vi) = vi {
                    if vi.sig.contains("directory_handed_over_before_worker_quiesced") {
                        ctx.out.viol(Viol { prop: "C13".into(), sig: "C13:second_owner_while_previous_instance_worker_alive".into(), text: vi.text, replay: vi.replay });
                    } else {
                        ctx.out.viol(vi);
                    }
                }
            }
            Err(crate::props::sched::RunErr::Viol(vi)) => ctx.out.viol(vi),
            Err(crate::props::sched::RunErr::Inconclusive(e)) => ctx.out.inconclusive.push(e),
        }
        ctx.out.count("handover_rounds", 1);
    }
    ctx.end_phase();
    let rounds = if ctx.tier == Tier::Quick { 2 } else { u64::MAX };
    let mut k = 0;
    while k < rounds && ctx.time_left() {
        k += 1;
        let Some(ci) = image::make_clean_image(r.next(), k + ctx.shard as u64 * 1000, 3000) else {
            ctx.out.inconclusive.push("no clean image".into());
            continue;
        };
        // the shards themselves run concurrently, so keep the per-shard contender count moderate
        let nthreads = *r.pick(&[2usize, 3, 4, 8]);
        let before = (stats.acquisitions, stats.refusals);
        if let Some(vi) = thread_round(&ci, nthreads, 150, r.next(), &mut stats) {
            ctx.out.viol(vi);
        }
        ctx.out.count("thread_rounds", 1);
        ctx.out.tag("thread_counts", &nthreads.to_string());
        let nprocs = *r.pick(&[2usize, 3, 4, 6]);
        match process_round(&ci, nprocs, 120, r.next(), &mut stats) {
            Ok(Some(vi)) => ctx.out.viol(vi),
            Ok(None) => {}
            Err(e) => ctx.out.inconclusive.push(format!("process round: {}", e)),
        }
        ctx.out.count("process_rounds", 1);
        // (c) the owner is another process: refused here, owner exits, open here must succeed
        match crate::props::c13x::other_process_round(&ci, 1 + (k % 3) as u32) {
            Ok(Some(vi)) => ctx.out.viol(vi),
            Ok(None) => ctx.out.count("other_process_rounds(refused_here_then_owner_process_exits)", 1),
            Err(e) => ctx.out.inconclusive.push(format!("other-process round: {}", e)),
        }
        // (d) the same directory under other spellings of its path
        match crate::props::c13x::alias_round(&ci) {
            Ok((vi, n)) => {
                ctx.out.count("attempts_through_another_path_spelling(symlink,dot,double_slash)", n);
                if let Some(vi) = vi {
                    ctx.out.viol(vi);
                }
            }
            Err(e) => ctx.out.inconclusive.push(format!("alias round: {}", e)),
        }
        // (d2) the lock service fails for the contender; a snapshot outlives its owner
        match crate::props::c13x::flock_fault_round(&ci) {
            Ok((vi, n)) => {
                ctx.out.count("attempts_whose_flock_call_failed_with_another_errno", n);
                if let Some(vi) = vi {
                    ctx.out.viol(vi);
                }
            }
            Err(e) => ctx.out.inconclusive.push(format!("flock-fault round: {}", e)),
        }
        match crate::props::c13x::snapshot_outlives_owner_round(&ci) {
            Ok(Some(vi)) => ctx.out.viol(vi),
            Ok(None) => ctx.out.count("reopens_while_a_snapshot_of_the_dropped_owner_was_alive", 1),
            Err(e) => ctx.out.inconclusive.push(format!("snapshot round: {}", e)),
        }
        // (d3) a race for a directory that is still empty
        for _ in 0..6 {
            match crate::props::c13x::empty_dir_race_round(r.next()) {
                Ok((vi, n)) => {
                    ctx.out.count("empty_directory_races", 1);
                    ctx.out.count("refusals_in_races_for_an_empty_directory", n);
                    if let Some(vi) = vi {
                        ctx.out.viol(vi);
                    }
                }
                Err(e) => ctx.out.inconclusive.push(format!("empty-dir race: {}", e)),
            }
        }
        // (e) the owner's worker ends on an I/O error, the owner lives on
        for _ in 0..2 {
            match crate::props::c13x::dead_worker_round(r.next()) {
                Ok((vi, n)) => {
                    ctx.out.count("attempts_against_an_owner_whose_worker_had_ended", n);
                    if let Some(vi) = vi {
                        ctx.out.viol(vi);
                    }
                }
                Err(e) => ctx.out.inconclusive.push(format!("dead-worker round: {}", e)),
            }
        }
        match fork_round(&ci) {
            Ok(Some(vi)) => ctx.out.viol(vi),
            Ok(None) => ctx.out.count("fork_rounds(owner_dropped_while_a_forked_child_holds_its_descriptors)", 1),
            Err(e) => ctx.out.inconclusive.push(format!("fork round: {}", e)),
        }
        ctx.out.tag("process_counts", &nprocs.to_string());
        ctx.out.evaluations += (stats.acquisitions - before.0) + (stats.refusals - before.1);
        // a round is informative only if contention was actually observed
        if stats.refusals > before.1 && stats.acquisitions > before.0 {
            ctx.out.distinct.insert(util::fnv_mix(image_hash(&ci.img), (nthreads * 100 + nprocs) as u64 ^ r.next()));
        }
        if k == 1 {
            ctx.out.sample(json!({"directory": ci.img.iter().map(|(c, b)| json!({"chunk": c, "len": b.len()})).collect::<Vec<_>>(), "threads": nthreads, "processes": nprocs, "attempts_per_thread": 150, "attempts_per_process": 120}));
        }
    }
    ctx.out.count("attempts", stats.attempts);
    ctx.out.count("acquisitions", stats.acquisitions);
    ctx.out.count("refusals(contention_observed)", stats.refusals);
    ctx.out.count("acquisitions_as_dump", stats.as_dump);
    ctx.out.tag("max_simultaneous_owners_seen_in_process(per_shard)", &stats.max_owners.to_string());
    ctx.out.count("chunk_file_comparisons_after_refusals", stats.image_checks);
}

pub fn replay(vj: &serde_json::Value) -> Option<Viol> {
    let img = image::img_from_json(&vj["image"])?;
    let cfg = CfgSpec::from_json(&vj["cfg"]);
    let idir = crate::props::crash::ImageDir::new("c13r");
    let (o, _) = image::open_and_read(&idir, &img, &cfg);
    let image::Opened::Ok { state, entries: Ok(entries) } = o else { return None };
    let ci = CleanImage { img, cfg, state, entries, ops: vec![], leftover: vec![] };
    let seed: u64 = vj["seed"].as_str()?.parse().ok()?;
    let mut stats = C13Stats::default();
    for _ in 0..5 {
        let r = if vj["mode"].as_str() == Some("threads") {
            thread_round(&ci, vj["threads"].as_u64()? as usize, vj["attempts"].as_u64()?, seed, &mut stats)
        } else {
            process_round(&ci, vj["procs"].as_u64()? as usize, vj["attempts"].as_u64()?, seed, &mut stats).ok().flatten()
        };
        if r.is_some() {
            return r;
        }
    }
    None
}
