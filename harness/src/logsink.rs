//! A `log` sink that is always enabled at `Trace` level and FORMATS every message (into a byte counter).
//! The crate under test writes `info!`/`debug!` lines whose arguments are evaluated only when a logger is
//! installed; running every workload with one makes those argument expressions (arithmetic on offsets,
//! `Display`/`Debug` of states and records) part of what the monitors exercise. A panic inside such an
//! expression surfaces as a panic of the public call that logs it.

use std::fmt::Write;
use std::sync::atomic::{AtomicU64, Ordering};

pub static LINES: AtomicU64 = AtomicU64::new(0);
pub static BYTES: AtomicU64 = AtomicU64::new(0);

struct Counter(u64);

impl Write for Counter {
    fn write_str(&mut self, s: &str) -> std::fmt::Result {
        self.0 += s.len() as u64;
        Ok(())
    }
}

struct Sink;

impl log::Log for Sink {
    fn enabled(&self, _m: &log::Metadata) -> bool {
        true
    }
    fn log(&self, record: &log::Record) {
        let mut c = Counter(0);
        let _ = write!(c, "{}", record.args());
        LINES.fetch_add(1, Ordering::Relaxed);
        BYTES.fetch_add(c.0, Ordering::Relaxed);
    }
    fn flush(&self) {}
}

static SINK: Sink = Sink;

/// Install the sink unless `RLMON_NO_LOG` is set.
pub fn install() {
    if std::env::var("RLMON_NO_LOG").is_ok() {
        return;
    }
    if log::set_logger(&SINK).is_ok() {
        log::set_max_level(log::LevelFilter::Trace);
    }
}

pub fn lines() -> u64 {
    LINES.load(Ordering::Relaxed)
}
