//! Small utilities: PRNG, hashing, scratch directories.

use std::sync::atomic::{AtomicU64, Ordering};

/// splitmix64 / xorshift based PRNG, fully determined by its seed.
#[derive(Clone, Debug)]
pub struct Rng(pub u64);

impl Rng {
    pub fn new(seed: u64) -> Self {
        let mut r = Rng(seed ^ 0x9E37_79B9_7F4A_7C15);
        r.next();
        r.next();
        r
    }
    pub fn next(&mut self) -> u64 {
        self.0 = self.0.wrapping_add(0x9E37_79B9_7F4A_7C15);
        let mut z = self.0;
        z = (z ^ (z >> 30)).wrapping_mul(0xBF58_476D_1CE4_E5B9);
        z = (z ^ (z >> 27)).wrapping_mul(0x94D0_49BB_1331_11EB);
        z ^ (z >> 31)
    }
    /// uniform in [0, n)
    pub fn below(&mut self, n: u64) -> u64 {
        if n == 0 { 0 } else { self.next() % n }
    }
    pub fn range(&mut self, lo: u64, hi_incl: u64) -> u64 {
        lo + self.below(hi_incl - lo + 1)
    }
    pub fn chance(&mut self, num: u64, den: u64) -> bool {
        self.below(den) < num
    }
    pub fn pick<'a, T>(&mut self, xs: &'a [T]) -> &'a T {
        &xs[self.below(xs.len() as u64) as usize]
    }
    pub fn fork(&mut self) -> Rng {
        Rng::new(self.next())
    }
}

/// FNV-1a 64
pub fn fnv(bytes: &[u8]) -> u64 {
    let mut h: u64 = 0xcbf29ce484222325;
    for b in bytes {
        h ^= *b as u64;
        h = h.wrapping_mul(0x100000001b3);
    }
    h
}

pub fn fnv_mix(h: u64, x: u64) -> u64 {
    let mut h = h ^ x.wrapping_mul(0x9E37_79B9_7F4A_7C15);
    h = h.wrapping_mul(0x100000001b3);
    h ^ (h >> 29)
}

pub fn hash_str(s: &str) -> u64 {
    fnv(s.as_bytes())
}

static SCRATCH_CTR: AtomicU64 = AtomicU64::new(0);

/// Root of this process' scratch area (on /dev/shm when available).
pub fn scratch_root() -> String {
    let base = if std::path::Path::new("/dev/shm").is_dir() {
        "/dev/shm".to_string()
    } else {
        std::env::var("TMPDIR").unwrap_or_else(|_| "/var/tmp".to_string())
    };
    format!("{}/rlverif-{}", base, std::process::id())
}

/// Create a fresh, empty scratch directory and return its path.
pub fn fresh_dir(tag: &str) -> String {
    let n = SCRATCH_CTR.fetch_add(1, Ordering::Relaxed);
    // under `-Zmiri-many-seeds` several interpreted runs share one pid: add per-run entropy
    #[cfg(miri)]
    let tag = {
        use std::hash::BuildHasher;
        format!("{}-{:x}", tag, std::collections::hash_map::RandomState::new().hash_one(n))
    };
    let d = format!("{}/{}-{}", scratch_root(), tag, n);
    let _ = std::fs::remove_dir_all(&d);
    std::fs::create_dir_all(&d).expect("create scratch dir");
    d
}

pub fn remove_dir(d: &str) {
    let _ = std::fs::remove_dir_all(d);
}

pub fn cleanup_scratch() {
    let _ = std::fs::remove_dir_all(scratch_root());
}

pub fn now_s() -> f64 {
    let mut ts = libc::timespec { tv_sec: 0, tv_nsec: 0 };
    unsafe { libc::clock_gettime(libc::CLOCK_MONOTONIC, &mut ts) };
    ts.tv_sec as f64 + ts.tv_nsec as f64 * 1e-9
}

pub fn now_ns() -> u64 {
    let mut ts = libc::timespec { tv_sec: 0, tv_nsec: 0 };
    unsafe { libc::clock_gettime(libc::CLOCK_MONOTONIC, &mut ts) };
    ts.tv_sec as u64 * 1_000_000_000 + ts.tv_nsec as u64
}

pub fn hex(bytes: &[u8]) -> String {
    let mut s = String::with_capacity(bytes.len() * 2);
    for b in bytes {
        s.push_str(&format!("{:02x}", b));
    }
    s
}

pub fn unhex(s: &str) -> Vec<u8> {
    (0..s.len() / 2).map(|i| u8::from_str_radix(&s[2 * i..2 * i + 2], 16).unwrap_or(0)).collect()
}
