//! Global event trace, fault plan, ack table, and the gate that parks threads
//! at their file-system calls. The libc interposers in `shim.rs` feed it.
//!
//! The trace mutex is held across *syscall + append*, so the order of events
//! is a real linearisation of the file-system effects of all threads and every
//! prefix of the trace is a state the disk really was in.

use std::collections::{BTreeMap, HashMap};
use std::sync::atomic::{AtomicBool, AtomicU64, Ordering};
use std::sync::{Condvar, Mutex, MutexGuard};

pub type PathId = u32;

/// pseudo path id of the gate point "about to open the LOCK file"
pub const LOCK_POINT: PathId = u32::MAX - 1;

#[derive(Clone, Copy, PartialEq, Eq, Debug, Hash, PartialOrd, Ord)]
pub enum Role {
    Caller = 0,
    Worker = 1,
    Aux = 2,
}

impl Role {
    pub fn name(&self) -> &'static str {
        match self {
            Role::Caller => "caller",
            Role::Worker => "worker",
            Role::Aux => "aux",
        }
    }
    pub fn bit(&self) -> u8 {
        1 << (*self as u8)
    }
}

#[derive(Clone, Copy, PartialEq, Eq, Debug, Hash, PartialOrd, Ord)]
pub enum Sk {
    Create = 0,
    Write = 1,
    Sync = 2,
    Trunc = 3,
    Unlink = 4,
    Ack = 5,
    OpenRd = 6,
}
pub const NSK: usize = 7;

impl Sk {
    pub fn name(&self) -> &'static str {
        match self {
            Sk::Create => "create",
            Sk::Write => "write",
            Sk::Sync => "sync",
            Sk::Trunc => "truncate",
            Sk::Unlink => "unlink",
            Sk::Ack => "ack",
            Sk::OpenRd => "open",
        }
    }
    pub fn bit(&self) -> u16 {
        1 << (*self as u16)
    }
}

#[derive(Clone, Debug)]
pub enum Ek {
    Create { path: PathId },
    /// `data` = bytes the caller asked to write; `res` = bytes written or -errno
    Write { path: PathId, off: u64, data: Vec<u8>, res: i64 },
    Sync { path: PathId, res: i32 },
    Trunc { path: PathId, len: u64, res: i32 },
    Unlink { path: PathId, res: i32 },
    OpenRd { path: PathId },
    OpBegin { op: u32 },
    OpEnd { op: u32, ok: bool },
    FlushCall { flush: u64, gend: u64 },
    Ack { flush: u64, ok: bool },
    AckDropped { flush: u64 },
    DropBegin { inst: u32 },
    DropEnd { inst: u32 },
    OpenBegin { inst: u32 },
    OpenEnd { inst: u32, ok: bool },
}

impl Ek {
    /// does this event change directory contents?
    pub fn mutates(&self) -> bool {
        match self {
            Ek::Create { .. } => true,
            Ek::Write { res, .. } => *res > 0,
            Ek::Trunc { res, .. } => *res == 0,
            Ek::Unlink { res, .. } => *res == 0,
            _ => false,
        }
    }
    pub fn is_fs(&self) -> bool {
        matches!(self, Ek::Create { .. } | Ek::Write { .. } | Ek::Sync { .. } | Ek::Trunc { .. } | Ek::Unlink { .. })
    }
    pub fn path(&self) -> Option<PathId> {
        match self {
            Ek::Create { path } | Ek::Write { path, .. } | Ek::Sync { path, .. } | Ek::Trunc { path, .. } | Ek::Unlink { path, .. } | Ek::OpenRd { path } => Some(*path),
            _ => None,
        }
    }
    pub fn short(&self) -> String {
        match self {
            Ek::Create { path } => format!("create f{}", path),
            Ek::Write { path, off, data, res } => format!("write f{}@{}+{}={}", path, off, data.len(), res),
            Ek::Sync { path, res } => format!("sync f{}={}", path, res),
            Ek::Trunc { path, len, res } => format!("trunc f{}->{}={}", path, len, res),
            Ek::Unlink { path, res } => format!("unlink f{}={}", path, res),
            Ek::OpenRd { path } => format!("open f{}", path),
            Ek::OpBegin { op } => format!("op{}(", op),
            Ek::OpEnd { op, ok } => format!(")op{}:{}", op, if *ok { "ok" } else { "err" }),
            Ek::FlushCall { flush, gend } => format!("flush#{}@{}", flush, gend),
            Ek::Ack { flush, ok } => format!("ACK#{}:{}", flush, if *ok { "ok" } else { "err" }),
            Ek::AckDropped { flush } => format!("ACKDROP#{}", flush),
            Ek::DropBegin { inst } => format!("drop{}(", inst),
            Ek::DropEnd { inst } => format!(")drop{}", inst),
            Ek::OpenBegin { inst } => format!("open{}(", inst),
            Ek::OpenEnd { inst, ok } => format!(")open{}:{}", inst, ok),
        }
    }
}

#[derive(Clone, Debug)]
pub struct Ev {
    pub tid: i32,
    pub role: Role,
    pub k: Ek,
}

#[derive(Clone, Debug)]
pub enum FaultAction {
    /// fail the call with EIO, nothing done
    Eio,
    /// write only the first k bytes, return k (k < requested)
    ShortWrite(usize),
    /// write the first k bytes and then fail the *call* with EIO
    PartialThenEio(usize),
}

#[derive(Clone, Debug)]
pub struct Fault {
    pub role: Role,
    pub kind: Sk,
    /// 0-based ordinal among tracked calls of (role, kind) since `begin`
    pub nth: u32,
    pub action: FaultAction,
    pub fired: bool,
}

#[derive(Clone, Debug, PartialEq, Eq)]
pub enum AckState {
    Ok,
    Err(String),
    Dropped,
}

#[derive(Default)]
pub struct Trace {
    pub prefix: String,
    pub paths: Vec<String>,
    pub path_ix: HashMap<String, PathId>,
    pub evs: Vec<Ev>,
    pub faults: Vec<Fault>,
    pub counters: [[u32; NSK]; 3],
    pub pread_calls: u64,
    pub pread_bytes: u64,
    pub read_calls: u64,
}

impl Trace {
    pub fn path_id(&mut self, p: &str) -> PathId {
        if let Some(i) = self.path_ix.get(p) {
            return *i;
        }
        let i = self.paths.len() as PathId;
        self.paths.push(p.to_string());
        self.path_ix.insert(p.to_string(), i);
        i
    }
    pub fn push(&mut self, tid: i32, role: Role, k: Ek) {
        self.evs.push(Ev { tid, role, k });
    }
    /// Look up (and consume) a fault for this call.
    pub fn fault_for(&mut self, role: Role, kind: Sk) -> Option<FaultAction> {
        let n = self.counters[role as usize][kind as usize];
        self.counters[role as usize][kind as usize] += 1;
        for f in self.faults.iter_mut() {
            if !f.fired && f.role == role && f.kind == kind && f.nth == n {
                f.fired = true;
                return Some(f.action.clone());
            }
        }
        None
    }
}

pub static ENABLED: AtomicBool = AtomicBool::new(false);
static TRACE: Mutex<Option<Trace>> = Mutex::new(None);
static ACK_CV: Condvar = Condvar::new();

pub fn lock() -> MutexGuard<'static, Option<Trace>> {
    match TRACE.lock() {
        Ok(g) => g,
        Err(p) => p.into_inner(),
    }
}

/// Start tracing every `.wal` file whose path starts with `prefix`.
pub fn begin(prefix: &str) {
    let mut g = lock();
    let mut t = Trace::default();
    t.prefix = prefix.to_string();
    *g = Some(t);
    ENABLED.store(true, Ordering::SeqCst);
}

/// Stop tracing and return what was recorded.
pub fn end() -> Trace {
    ENABLED.store(false, Ordering::SeqCst);
    let mut g = lock();
    crate::shim::clear_fd_table();
    g.take().unwrap_or_default()
}

pub fn active() -> bool {
    ENABLED.load(Ordering::Relaxed)
}

pub fn set_faults(f: Vec<Fault>) {
    if let Some(t) = lock().as_mut() {
        t.faults = f;
    }
}

pub fn fired_faults() -> usize {
    lock().as_ref().map(|t| t.faults.iter().filter(|f| f.fired).count()).unwrap_or(0)
}

pub fn current_tid() -> i32 {
    #[cfg(not(miri))]
    unsafe {
        libc::syscall(libc::SYS_gettid) as i32
    }
    #[cfg(miri)]
    {
        0
    }
}

thread_local! {
    static ROLE: std::cell::Cell<u8> = const { std::cell::Cell::new(255) };
}

pub fn current_role() -> Role {
    let r = ROLE.with(|c| c.get());
    if r != 255 {
        return match r {
            1 => Role::Worker,
            2 => Role::Aux,
            _ => Role::Caller,
        };
    }
    let name = std::thread::current().name().map(|s| s.to_string()).unwrap_or_default();
    let role = if name.starts_with("raft_log_wal_flush") {
        Role::Worker
    } else if name.starts_with("rlmon_aux") {
        Role::Aux
    } else {
        Role::Caller
    };
    ROLE.with(|c| c.set(role as u8));
    role
}

/// Record a harness-level event (no-op when tracing is off).
pub fn note(k: Ek) {
    if !active() {
        return;
    }
    let tid = current_tid();
    let role = current_role();
    if let Some(t) = lock().as_mut() {
        t.push(tid, role, k);
    }
}

pub fn ev_count() -> usize {
    lock().as_ref().map(|t| t.evs.len()).unwrap_or(0)
}

static ACKS: Mutex<BTreeMap<u64, Vec<AckState>>> = Mutex::new(BTreeMap::new());
static FLUSH_CTR: AtomicU64 = AtomicU64::new(0);

fn acks_lock() -> MutexGuard<'static, BTreeMap<u64, Vec<AckState>>> {
    match ACKS.lock() {
        Ok(g) => g,
        Err(p) => p.into_inner(),
    }
}

/// A process-wide unique flush id.
pub fn next_flush_id() -> u64 {
    FLUSH_CTR.fetch_add(1, Ordering::SeqCst) + 1
}

/// Forget recorded acks (between histories).
pub fn reset_acks() {
    acks_lock().clear();
}

fn record_ack(flush: u64, st: AckState, ev: Ek) {
    let tid = current_tid();
    let role = current_role();
    if active() {
        if let Some(t) = lock().as_mut() {
            t.push(tid, role, ev);
        }
    }
    acks_lock().entry(flush).or_default().push(st);
    ACK_CV.notify_all();
}

/// Called from `AckCb::send` (on the worker thread).
pub fn on_ack(flush: u64, res: &Result<(), std::io::Error>) {
    gate_arrive(current_role(), Sk::Ack, u32::MAX);
    let st = match res {
        Ok(()) => AckState::Ok,
        Err(e) => AckState::Err(e.to_string()),
    };
    record_ack(flush, st, Ek::Ack { flush, ok: res.is_ok() });
}

pub fn on_ack_dropped(flush: u64) {
    record_ack(flush, AckState::Dropped, Ek::AckDropped { flush });
}

/// All callback invocations seen for `flush` (more than one is a violation of C04).
pub fn ack_states(flush: u64) -> Vec<AckState> {
    acks_lock().get(&flush).cloned().unwrap_or_default()
}

pub fn ack_state(flush: u64) -> Option<AckState> {
    acks_lock().get(&flush).and_then(|v| v.first().cloned())
}

/// Block until the callback of `flush` has fired (or been dropped). Returns None on timeout.
pub fn wait_ack(flush: u64, timeout_ms: u64) -> Option<AckState> {
    let deadline = std::time::Instant::now() + std::time::Duration::from_millis(timeout_ms);
    let mut g = acks_lock();
    loop {
        if let Some(s) = g.get(&flush).and_then(|v| v.first()) {
            return Some(s.clone());
        }
        let now = std::time::Instant::now();
        if now >= deadline {
            return None;
        }
        let (ng, _) = match ACK_CV.wait_timeout(g, deadline - now) {
            Ok(x) => x,
            Err(p) => p.into_inner(),
        };
        g = ng;
    }
}

// ---------------------------------------------------------------------------------------
// Gate

#[derive(Clone, Debug, PartialEq, Eq)]
pub struct Point {
    pub kind: Sk,
    pub path: PathId,
}

#[derive(Default, Debug)]
pub struct Lane {
    pub permits: u32,
    pub waiting: Option<Point>,
    pub arrivals: u64,
    pub role: u8,
}

#[derive(Default)]
pub struct Gate {
    /// incremented by every `gate_enable`; a thread parked under an older epoch is released
    pub epoch: u64,
    pub stepped: bool,
    pub roles: u8,
    pub kinds: u16,
    pub lanes: HashMap<i32, Lane>,
}

static GATE_ON: AtomicBool = AtomicBool::new(false);
static GATE: Mutex<Option<Gate>> = Mutex::new(None);
static GATE_CV: Condvar = Condvar::new();

fn gate_lock() -> MutexGuard<'static, Option<Gate>> {
    match GATE.lock() {
        Ok(g) => g,
        Err(p) => p.into_inner(),
    }
}

/// Park threads of the given roles at calls of the given kinds until granted a permit.
pub fn gate_enable(roles: u8, kinds: u16) {
    let mut g = gate_lock();
    let epoch = g.as_ref().map(|x| x.epoch).unwrap_or(0) + 1;
    *g = Some(Gate { epoch, stepped: true, roles, kinds, lanes: HashMap::new() });
    drop(g);
    GATE_CV.notify_all();
    GATE_ON.store(true, Ordering::SeqCst);
}

/// Release everything and stop gating.
pub fn gate_disable() {
    GATE_ON.store(false, Ordering::SeqCst);
    let mut g = gate_lock();
    if let Some(gt) = g.as_mut() {
        gt.stepped = false;
    }
    drop(g);
    GATE_CV.notify_all();
}

pub fn gate_arrive(role: Role, kind: Sk, path: PathId) {
    if !GATE_ON.load(Ordering::Relaxed) {
        return;
    }
    let tid = current_tid();
    let mut g = gate_lock();
    let my_epoch;
    {
        let Some(gt) = g.as_mut() else { return };
        if !gt.stepped || gt.roles & role.bit() == 0 || gt.kinds & kind.bit() == 0 {
            return;
        }
        my_epoch = gt.epoch;
        let lane = gt.lanes.entry(tid).or_default();
        lane.role = role as u8;
        lane.arrivals += 1;
        lane.waiting = Some(Point { kind, path });
    }
    GATE_CV.notify_all();
    loop {
        {
            let Some(gt) = g.as_mut() else { return };
            if !gt.stepped {
                if let Some(l) = gt.lanes.get_mut(&tid) {
                    l.waiting = None;
                }
                break;
            }
            if gt.epoch != my_epoch {
                // a thread left over from an earlier run: let it go
                break;
            }
            let Some(lane) = gt.lanes.get_mut(&tid) else { break };
            if lane.permits > 0 {
                lane.permits -= 1;
                lane.waiting = None;
                break;
            }
        }
        g = match GATE_CV.wait(g) {
            Ok(x) => x,
            Err(p) => p.into_inner(),
        };
    }
    drop(g);
    GATE_CV.notify_all();
}

/// (tid, waiting point, arrivals) of every lane of `role`.
pub fn gate_lanes(role: Role) -> Vec<(i32, Option<Point>, u64)> {
    let g = gate_lock();
    match g.as_ref() {
        Some(gt) => gt.lanes.iter().filter(|(_, l)| l.role == role as u8).map(|(t, l)| (*t, l.waiting.clone(), l.arrivals)).collect(),
        None => vec![],
    }
}

/// (tid, waiting point, arrivals) of every lane, whatever its role.
pub fn gate_all_lanes() -> Vec<(i32, Option<Point>, u64)> {
    let g = gate_lock();
    match g.as_ref() {
        Some(gt) => gt.lanes.iter().map(|(t, l)| (*t, l.waiting.clone(), l.arrivals)).collect(),
        None => vec![],
    }
}

pub fn gate_grant(tid: i32, n: u32) {
    let mut g = gate_lock();
    if let Some(gt) = g.as_mut() {
        let l = gt.lanes.entry(tid).or_default();
        l.permits += n;
        // from the controller's point of view the thread has left the gate now
        l.waiting = None;
    }
    drop(g);
    GATE_CV.notify_all();
}

/// Is there any thread of this process whose name marks it as a flush worker of the crate under test?
pub fn any_worker_thread_alive() -> bool {
    let Ok(rd) = std::fs::read_dir("/proc/self/task") else { return true };
    for e in rd.flatten() {
        if let Ok(c) = std::fs::read_to_string(e.path().join("comm")) {
            if c.starts_with("raft_log_wal_fl") {
                return true;
            }
        }
    }
    false
}

pub fn thread_alive(tid: i32) -> bool {
    std::path::Path::new(&format!("/proc/self/task/{}", tid)).exists()
}
