//! Generators: configurations, Raft-legal histories, rejected and adversarial calls.

use serde_json::{Value, json};

use crate::model::{LogId, Model, Rec, Reject};
use crate::store::{CfgSpec, Op};
use crate::util::Rng;

#[derive(Clone, Debug, PartialEq)]
pub enum Expect {
    /// the sequential specification accepts the call
    Accept,
    /// the specification rejects it (for a batch append: entry `at` is the refused one,
    /// the entries before it are accepted)
    Reject { why: String, at: usize },
    /// adversarial argument: only "returns normally" is specified here
    Any,
}

#[derive(Clone, Debug, PartialEq)]
pub struct Step {
    pub op: Op,
    pub expect: Expect,
}

impl Step {
    pub fn to_json(&self) -> Value {
        let e = match &self.expect {
            Expect::Accept => json!("accept"),
            Expect::Reject { why, at } => json!({"reject": why, "at": at}),
            Expect::Any => json!("any"),
        };
        json!({"op": self.op.to_json(), "expect": e})
    }
    pub fn from_json(v: &Value) -> Option<Step> {
        let op = Op::from_json(v.get("op")?)?;
        let e = v.get("expect")?;
        let expect = if e.as_str() == Some("accept") {
            Expect::Accept
        } else if e.as_str() == Some("any") {
            Expect::Any
        } else {
            Expect::Reject { why: e.get("reject")?.as_str()?.to_string(), at: e.get("at")?.as_u64()? as usize }
        };
        Some(Step { op, expect })
    }
}

#[derive(Clone, Debug)]
pub struct GenParams {
    pub min_ops: usize,
    pub max_ops: usize,
    /// allow truncate-then-append with a term lower than the removed suffix
    pub lower_term: bool,
    /// inject calls the specification rejects with this probability (per mille)
    pub reject_pm: u64,
    /// flush ops per mille (with/without callback)
    pub flush_pm: u64,
    /// Sync (flush+ack+idle) ops per mille
    pub sync_pm: u64,
    /// Reopen ops per mille
    pub reopen_pm: u64,
    pub purge_heavy: bool,
    pub big_payloads: bool,
    pub small_cache: bool,
    /// end the history with a Sync
    pub end_sync: bool,
    /// tiny chunks only (for schedule / crash work)
    pub tiny_chunks: bool,
    /// chunks of 8+ records (few rotations)
    pub roomy_chunks: bool,
    /// read-only calls (dump, snapshot iteration, abandoned dump) per mille
    pub misc_pm: u64,
    /// update_state calls per mille
    pub update_state_pm: u64,
}

impl Default for GenParams {
    fn default() -> Self {
        GenParams {
            min_ops: 20,
            max_ops: 80,
            lower_term: true,
            reject_pm: 0,
            flush_pm: 80,
            sync_pm: 30,
            reopen_pm: 0,
            purge_heavy: false,
            big_payloads: true,
            small_cache: false,
            end_sync: false,
            tiny_chunks: false,
            roomy_chunks: false,
            misc_pm: 25,
            update_state_pm: 25,
        }
    }
}

pub fn gen_config(r: &mut Rng, p: &GenParams) -> CfgSpec {
    if p.roomy_chunks {
        let recs: &[Option<usize>] = &[Some(8), Some(12), Some(20), Some(40), None];
        return CfgSpec { max_items: None, capacity: None, read_buf: Some(4096), max_records: *r.pick(recs), max_size: *r.pick(&[None, None, Some(2000)]), truncate: None };
    }
    let recs: &[Option<usize>] = if p.tiny_chunks { &[Some(1), Some(2), Some(3), Some(4), Some(6)] } else { &[Some(0), Some(1), Some(2), Some(3), Some(5), Some(8), Some(20), None] };
    let sizes: &[Option<usize>] = if p.tiny_chunks { &[None, None, Some(120), Some(300)] } else { &[Some(0), Some(1), Some(60), Some(200), Some(1000), None, None, None] };
    let bufs: &[Option<usize>] = &[Some(0), Some(1), Some(7), Some(64), Some(4096), Some(4096), Some(65536)];
    let (mi, cap) = if p.small_cache {
        (*r.pick(&[Some(0usize), Some(1), Some(2), Some(3), Some(5), None]), *r.pick(&[Some(0usize), Some(8), Some(64), Some(300), None, None]))
    } else {
        (None, None)
    };
    let mut read_buf = *r.pick(bufs);
    if r.chance(1, 40) {
        read_buf = None; // the 64 MB default, rarely (slow to allocate)
    }
    CfgSpec { max_items: mi, capacity: cap, read_buf, max_records: *r.pick(recs), max_size: *r.pick(sizes), truncate: *r.pick(&[None, Some(true), Some(true)]) }
}

pub struct Gen {
    pub r: Rng,
    pub m: Model,
    pub hist: u64,
    pub opn: u32,
    pub term_hint: u64,
    pub p: GenParams,
    pub tags: std::collections::BTreeSet<&'static str>,
}

impl Gen {
    pub fn new(seed: u64, hist: u64, p: GenParams) -> Self {
        Gen { r: Rng::new(seed), m: Model::new(), hist, opn: 0, term_hint: 1, p, tags: Default::default() }
    }

    fn payload(&mut self, k: usize) -> String {
        let head = format!("h{}o{}e{}:", self.hist, self.opn, k);
        let class = self.r.below(100);
        let size: usize = if class < 6 {
            0
        } else if class < 60 {
            self.r.range(1, 20) as usize
        } else if class < 85 {
            self.r.range(60, 140) as usize
        } else if class < 97 {
            self.r.range(800, 1200) as usize
        } else if self.p.big_payloads {
            70_000
        } else {
            200
        };
        if size == 0 {
            self.tags.insert("empty_payload");
            // an empty payload cannot carry a unique tag; uniqueness of the entry comes from its log id
            return String::new();
        }
        if size >= 70_000 {
            self.tags.insert("payload_70k");
        }
        let mut s = head;
        let fill = (b'a' + (self.r.below(26) as u8)) as char;
        while s.len() < size {
            s.push(fill);
        }
        s
    }

    fn pick_vote(&mut self) -> (u64, u64) {
        let cur = self.m.st.vote.unwrap_or((0, 0));
        match self.r.below(4) {
            0 => cur,                                            // same vote again (accepted)
            1 => (cur.0, cur.1 + self.r.range(0, 2)),            // same term
            _ => (cur.0.max(self.term_hint) + self.r.range(0, 2), self.r.below(5)),
        }
        .max(cur)
    }

    fn next_append_ids(&mut self, n: usize) -> Vec<LogId> {
        if self.r.chance(1, 6) {
            self.term_hint += self.r.range(1, 3);
        }
        let mut ids = vec![];
        let (mut term, mut idx) = match self.m.st.last {
            Some(l) => (l.0.max(self.term_hint), l.1 + 1),
            None => {
                let i = *self.r.pick(&[0u64, 0, 0, 1, 1, 5, 100, 1 << 32]);
                if i != 0 {
                    self.tags.insert("first_index_nonzero");
                }
                (self.term_hint, i)
            }
        };
        for _ in 0..n {
            ids.push((term, idx));
            idx += 1;
            if self.r.chance(1, 10) {
                term += 1;
            }
        }
        if term > self.term_hint && self.r.chance(1, 2) {
            self.term_hint = term;
        }
        ids
    }

    fn gen_append(&mut self) -> Op {
        let n = *self.r.pick(&[1usize, 1, 1, 2, 2, 3, 4]);
        let ids = self.next_append_ids(n);
        let es = ids.into_iter().enumerate().map(|(k, id)| (id, self.payload(k))).collect();
        Op::Append(es)
    }

    fn gen_truncate(&mut self) -> Option<Op> {
        let last = self.m.st.last?;
        let nxt = self.m.next_after_purged();
        let mut cands: Vec<u64> = vec![];
        if let Some(first) = self.m.first_index() {
            for i in first + 1..=last.1 {
                cands.push(i);
            }
            if self.m.check_truncate(first).is_ok() {
                cands.push(first);
            }
        }
        if self.m.check_truncate(nxt).is_ok() {
            cands.push(nxt);
        }
        // truncate(last+1): accepted no-op
        if self.r.chance(1, 8) && last.1 < u64::MAX && self.m.check_truncate(last.1 + 1).is_ok() {
            self.tags.insert("truncate_noop");
            return Some(Op::Truncate(last.1 + 1));
        }
        if cands.is_empty() {
            return None;
        }
        // prefer cutting near the end
        let i = if self.r.chance(2, 3) { cands[cands.len() - 1 - self.r.below(cands.len().min(3) as u64) as usize] } else { *self.r.pick(&cands) };
        let after = self.m.check_truncate(i).ok()?;
        // choose the term of the next appends relative to the removed suffix
        // first entry that the truncation removes (the log may start above `i`, e.g. truncate(0) of a log
        // whose first index is 100)
        let removed_first_term = self.m.log.range(i..).next().map(|(_, e)| e.0.0);
        let kept_term = after.map(|a| a.0).unwrap_or(0);
        if let Some(rt) = removed_first_term {
            if self.p.lower_term && rt > kept_term.max(1) && self.r.chance(1, 2) {
                self.term_hint = self.r.range(kept_term.max(1), rt - 1);
                self.tags.insert("lower_term_reappend");
            } else {
                let max_removed = self.m.log.range(i..).map(|(_, e)| e.0.0).max().unwrap_or(rt);
                self.term_hint = self.term_hint.max(max_removed + 1);
            }
        }
        Some(Op::Truncate(i))
    }

    fn gen_purge(&mut self) -> Option<Op> {
        let last = self.m.st.last;
        let c = self.r.below(100);
        if c < 8 {
            // beyond last
            let id = match last {
                Some(l) => (l.0.max(self.term_hint) + self.r.below(2), l.1 + self.r.range(1, 3)),
                None => (self.term_hint, self.r.range(0, 6)),
            };
            if Some(id) < self.m.st.purged {
                return None;
            }
            self.tags.insert("purge_beyond_last");
            return Some(Op::Purge(id));
        }
        if c < 14 {
            // at or below purged: accepted no-op that journals nothing
            if let Some(p) = self.m.st.purged {
                self.tags.insert("purge_noop");
                return Some(Op::Purge(p));
            }
        }
        let first = self.m.first_index()?;
        let lastix = last?.1;
        let i = if c < 30 {
            lastix
        } else if self.p.purge_heavy {
            self.r.range(first, lastix.min(first + 3))
        } else {
            self.r.range(first, lastix)
        };
        let id = self.m.log.get(&i)?.0;
        if i == lastix {
            self.tags.insert("purge_at_last");
        }
        Some(Op::Purge(id))
    }

    fn gen_commit(&mut self) -> Option<Op> {
        let c = self.m.st.committed;
        let cands: Vec<LogId> = self.m.log.values().map(|e| e.0).filter(|id| Some(*id) >= c).collect();
        if cands.is_empty() {
            let l = self.m.st.last?;
            if Some(l) >= c {
                return Some(Op::Commit(l));
            }
            return None;
        }
        Some(Op::Commit(*self.r.pick(&cands)))
    }

    fn gen_user_data(&mut self) -> Op {
        if self.r.chance(1, 4) {
            Op::UserData(None)
        } else {
            let n = self.r.range(0, 30) as usize;
            let mut s = format!("u{}o{}:", self.hist, self.opn);
            while s.len() < n {
                s.push('u');
            }
            Op::UserData(Some(s))
        }
    }

    /// one accepted write op
    pub fn gen_write(&mut self) -> Op {
        for _ in 0..20 {
            let w = self.r.below(100);
            let (ap, tr, pu) = if self.p.purge_heavy { (45, 53, 80) } else { (50, 62, 74) };
            let op = if w < ap {
                Some(self.gen_append())
            } else if w < tr {
                self.gen_truncate()
            } else if w < pu {
                self.gen_purge()
            } else if w < pu + 10 {
                self.gen_commit()
            } else if w < pu + 18 {
                Some(Op::Vote(self.pick_vote()))
            } else {
                Some(self.gen_user_data())
            };
            if let Some(op) = op {
                return op;
            }
        }
        self.gen_append()
    }

    /// a call the specification rejects, derived from the current model state
    pub fn gen_rejected(&mut self) -> Option<Step> {
        let st = self.m.st.clone();
        for _ in 0..12 {
            let which = self.r.below(9);
            let s = match which {
                0 => {
                    let v = st.vote?;
                    if v == (0, 0) {
                        continue;
                    }
                    let lower = if v.1 > 0 && self.r.chance(1, 2) { (v.0, v.1 - 1) } else if v.0 > 0 { (v.0 - 1, v.1 + self.r.below(3)) } else { (v.0, v.1 - 1) };
                    Step { op: Op::Vote(lower), expect: Expect::Reject { why: "vote_backwards".into(), at: 0 } }
                }
                1 => {
                    // same id as last
                    let l = st.last?;
                    Step { op: Op::Append(vec![(l, self.payload(0))]), expect: Expect::Reject { why: "append_equal_last".into(), at: 0 } }
                }
                2 => {
                    // next index, lower term
                    let l = st.last?;
                    if l.0 == 0 || l.1 == u64::MAX {
                        continue;
                    }
                    Step { op: Op::Append(vec![((l.0 - 1, l.1 + 1), self.payload(0))]), expect: Expect::Reject { why: "append_lower_term".into(), at: 0 } }
                }
                3 => {
                    // an index that already exists, with a larger log id
                    let l = st.last?;
                    let back = self.r.below(3).min(l.1);
                    Step { op: Op::Append(vec![((l.0 + 1, l.1 - back), self.payload(0))]), expect: Expect::Reject { why: "append_existing_index".into(), at: 0 } }
                }
                4 => {
                    let l = st.last?;
                    if l.1 > u64::MAX - 10 {
                        continue;
                    }
                    Step { op: Op::Append(vec![((l.0.max(self.term_hint), l.1 + 2 + self.r.below(3)), self.payload(0))]), expect: Expect::Reject { why: "append_gap".into(), at: 0 } }
                }
                5 => {
                    let c = st.committed?;
                    if c == (0, 0) {
                        continue;
                    }
                    let lower = match self.r.below(3) {
                        0 if c.0 > 0 => (c.0 - 1, c.1 + self.r.below(4)), // older term, same or higher index
                        _ => {
                            if c.1 > 0 { (c.0, c.1 - 1) } else if c.0 > 0 { (c.0 - 1, 5) } else { continue }
                        }
                    };
                    Step { op: Op::Commit(lower), expect: Expect::Reject { why: "commit_backwards".into(), at: 0 } }
                }
                6 => {
                    // truncate above last+1
                    let top = st.last.map(|l| l.1).unwrap_or(0);
                    if top > u64::MAX - 10 {
                        continue;
                    }
                    let i = top + 2 + self.r.below(3);
                    if self.m.check_truncate(i).is_ok() || self.m.truncate_unspecified(i) {
                        continue;
                    }
                    Step { op: Op::Truncate(i), expect: Expect::Reject { why: "truncate_above_last".into(), at: 0 } }
                }
                7 => {
                    // truncate at or below purged (index 0 with something purged is left to C16)
                    let p = st.purged?;
                    if p.1 == 0 {
                        continue;
                    }
                    let i = self.r.range(1, p.1);
                    if self.m.check_truncate(i).is_ok() || self.m.truncate_unspecified(i) {
                        continue;
                    }
                    Step { op: Op::Truncate(i), expect: Expect::Reject { why: "truncate_below_purged".into(), at: 0 } }
                }
                _ => {
                    // batch append whose k-th entry is refused
                    let n = self.r.range(2, 4) as usize;
                    let at = self.r.range(1, n as u64 - 1) as usize;
                    let mut ids = self.next_append_ids(n);
                    let bad = match self.r.below(4) {
                        0 => ids[at - 1],                                  // equal to previous
                        1 => (ids[at - 1].0 + 1, ids[at - 1].1),           // existing index, larger id
                        2 => (ids[at].0, ids[at].1 + 1),                   // gap
                        _ => {
                            // refused entry FOLLOWED by entries that would be fine on their own: the batch must still
                            // stop at the refused one
                            let good_next = ids[at];
                            ids.insert(at, (ids[at - 1].0, ids[at - 1].1 + 5));
                            let _ = good_next;
                            ids[at]
                        }
                    };
                    ids[at] = bad;
                    let es = ids.into_iter().enumerate().map(|(k, id)| (id, self.payload(k))).collect();
                    Step { op: Op::Append(es), expect: Expect::Reject { why: "append_batch_kth".into(), at } }
                }
            };
            return Some(s);
        }
        None
    }

    /// Integer values at and around the limits and the live window of the log.
    pub fn special_values(&self) -> Vec<u64> {
        let mut v = vec![0u64, 1, 2, (1 << 32) - 1, 1 << 32, 1 << 63, u64::MAX - 1, u64::MAX];
        let mut around = |x: u64| {
            v.push(x.saturating_sub(1));
            v.push(x);
            v.push(x.saturating_add(1));
            v.push(x.saturating_add(2));
        };
        if let Some(p) = self.m.st.purged {
            around(p.1);
        }
        if let Some(l) = self.m.st.last {
            around(l.1);
        }
        if let Some(f) = self.m.first_index() {
            around(f);
        }
        if let Some(c) = self.m.st.committed {
            around(c.1);
        }
        v.sort();
        v.dedup();
        v
    }

    fn special_term(&mut self) -> u64 {
        let lt = self.m.st.last.map(|l| l.0).unwrap_or(0);
        *self.r.pick(&[0u64, 1, lt, lt.saturating_add(1), lt.saturating_sub(1), self.term_hint, u64::MAX - 1, u64::MAX])
    }

    /// One call with arguments at the integer limits / around purged and last (C16).
    pub fn gen_adversarial(&mut self) -> Op {
        let sv = self.special_values();
        let x = *self.r.pick(&sv);
        let y = *self.r.pick(&sv);
        match self.r.below(14) {
            0 | 1 => Op::Truncate(x),
            2 | 3 => Op::Read(x, y),
            4 | 5 => Op::Purge((self.special_term(), x)),
            6 => Op::Commit((self.special_term(), x)),
            7 | 8 => {
                let n = self.r.range(1, 2) as usize;
                let mut es = vec![];
                let t = self.special_term();
                for k in 0..n {
                    es.push(((t, x.wrapping_add(k as u64)), self.payload(k)));
                }
                Op::Append(es)
            }
            9 => Op::Vote((self.special_term(), x)),
            10 => Op::UserData(if self.r.chance(1, 2) { None } else { Some(String::new()) }),
            11 => Op::Misc(self.r.below(5) as u8),
            12 => Op::Append(vec![]),
            _ => Op::Flush { cb: false },
        }
    }

    /// A burst of adversarial calls appended to a legal history. The model follows every
    /// call it accepts, so later calls are aimed at the state the store should be in.
    pub fn adversarial_burst(&mut self, n: usize, out: &mut Vec<Step>) {
        for _ in 0..n {
            self.opn = out.len() as u32;
            let op = self.gen_adversarial();
            if op.is_write() {
                let mut m2 = self.m.clone();
                let (_, res) = Gen::apply_to_model(&mut m2, &op);
                if res.is_ok() {
                    self.m = m2;
                } else if let Err((_, at)) = res {
                    if at > 0 {
                        self.m = m2;
                    }
                }
            }
            out.push(Step { op, expect: Expect::Any });
        }
        // update_state with limit values: only as the very last call (the state it creates
        // need not be reachable by a legal history)
        if self.r.chance(1, 2) {
            let sv = self.special_values();
            let mut pick = |g: &mut Gen| -> Option<(u64, u64)> { if g.r.chance(1, 4) { None } else { Some((g.special_term(), *g.r.pick(&sv))) } };
            let st = crate::model::MState { vote: pick(self), last: pick(self), committed: pick(self), purged: pick(self), user_data: None };
            out.push(Step { op: Op::UpdateState(st), expect: Expect::Any });
        }
    }

    /// Apply a write op to the generator's model exactly as the specification says.
    /// Returns the journalled single-record writes and the expectation.
    pub fn apply_to_model(m: &mut Model, op: &Op) -> (Vec<Rec>, Result<(), (Reject, usize)>) {
        match op {
            Op::Vote(v) => match m.check_vote(*v) {
                Ok(()) => {
                    let r = Rec::Vote(*v);
                    m.apply(&r);
                    (vec![r], Ok(()))
                }
                Err(e) => (vec![], Err((e, 0))),
            },
            Op::Append(es) => {
                let mut recs = vec![];
                for (k, (id, p)) in es.iter().enumerate() {
                    match m.check_append(*id) {
                        Ok(()) => {
                            let r = Rec::Append(*id, p.clone());
                            m.apply(&r);
                            recs.push(r);
                        }
                        Err(e) => return (recs, Err((e, k))),
                    }
                }
                (recs, Ok(()))
            }
            Op::Truncate(i) => match m.check_truncate(*i) {
                Ok(after) => {
                    let r = Rec::TruncateAfter(after);
                    m.apply(&r);
                    (vec![r], Ok(()))
                }
                Err(e) => (vec![], Err((e, 0))),
            },
            Op::Purge(id) => {
                if m.purge_is_noop(*id) {
                    (vec![], Ok(()))
                } else {
                    let r = Rec::Purge(*id);
                    m.apply(&r);
                    (vec![r], Ok(()))
                }
            }
            Op::Commit(id) => match m.check_commit(*id) {
                Ok(()) => {
                    let r = Rec::Commit(*id);
                    m.apply(&r);
                    (vec![r], Ok(()))
                }
                Err(e) => (vec![], Err((e, 0))),
            },
            Op::UserData(u) => {
                let mut s = m.st.clone();
                s.user_data = u.clone();
                let r = Rec::State(s);
                m.apply(&r);
                (vec![r], Ok(()))
            }
            Op::UpdateState(s) => {
                let r = Rec::State(s.clone());
                m.apply(&r);
                (vec![r], Ok(()))
            }
            _ => (vec![], Ok(())),
        }
    }

    /// Generate a whole history.
    pub fn history(&mut self) -> Vec<Step> {
        let n = self.r.range(self.p.min_ops as u64, self.p.max_ops as u64) as usize;
        let mut out = vec![];
        while out.len() < n {
            self.opn = out.len() as u32;
            let x = self.r.below(1000);
            let p = &self.p;
            let (f, s, ro, rj) = (p.flush_pm, p.sync_pm, p.reopen_pm, p.reject_pm);
            if x < f {
                out.push(Step { op: Op::Flush { cb: self.r.chance(2, 3) }, expect: Expect::Accept });
            } else if x < f + s {
                out.push(Step { op: Op::Sync, expect: Expect::Accept });
            } else if x < f + s + ro {
                let pc = self.p.clone();
                let c = gen_config(&mut self.r, &pc);
                out.push(Step { op: Op::Reopen(c), expect: Expect::Accept });
            } else if x < f + s + ro + self.p.misc_pm {
                // dump / snapshot iteration while writes may still be queued
                out.push(Step { op: Op::Misc(*self.r.pick(&[2u8, 2, 3, 5])), expect: Expect::Accept });
            } else if x < f + s + ro + self.p.misc_pm + self.p.update_state_pm {
                // update_state with a full state that keeps last/purged (a Raft-legal use: vote/commit/user-data change)
                let mut st = self.m.st.clone();
                match self.r.below(3) {
                    0 => st.vote = Some(self.pick_vote()),
                    1 => st.user_data = Some(format!("us{}o{}", self.hist, self.opn)),
                    _ => {
                        if let Some(l) = st.last {
                            if Some(l) >= st.committed {
                                st.committed = Some(l);
                            }
                        }
                    }
                }
                let op = Op::UpdateState(st);
                let mut m2 = self.m.clone();
                let (_, res) = Gen::apply_to_model(&mut m2, &op);
                if res.is_ok() {
                    self.m = m2;
                    out.push(Step { op, expect: Expect::Accept });
                }
            } else if x < f + s + ro + self.p.misc_pm + self.p.update_state_pm + rj {
                if let Some(st) = self.gen_rejected() {
                    // a batch whose k-th entry is refused still applies the entries before it
                    let mut m2 = self.m.clone();
                    let (_, res) = Gen::apply_to_model(&mut m2, &st.op);
                    if res.is_err() {
                        self.m = m2;
                        out.push(st);
                    }
                }
            } else {
                let op = self.gen_write();
                let mut m2 = self.m.clone();
                let (_, res) = Gen::apply_to_model(&mut m2, &op);
                if res.is_ok() {
                    self.m = m2;
                    out.push(Step { op, expect: Expect::Accept });
                }
            }
        }
        if self.p.end_sync {
            out.push(Step { op: Op::Sync, expect: Expect::Accept });
        }
        out
    }
}

pub fn steps_to_json(steps: &[Step]) -> Value {
    Value::Array(steps.iter().map(|s| s.to_json()).collect())
}

pub fn steps_from_json(v: &Value) -> Option<Vec<Step>> {
    v.as_array()?.iter().map(Step::from_json).collect()
}

pub fn steps_brief(steps: &[Step]) -> Vec<String> {
    steps
        .iter()
        .map(|s| match &s.expect {
            Expect::Accept => s.op.brief(),
            Expect::Reject { why, .. } => format!("{} !{}", s.op.brief(), why),
            Expect::Any => format!("{} ?", s.op.brief()),
        })
        .collect()
}
