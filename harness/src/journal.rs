//! Reference journal: byte-exact prediction of the chunk files from the
//! accepted single-record writes, the chunk limits and the rotation rule
//! stated in C11 ("a file is closed as soon as it reaches the configured
//! record-count or size limit"; each file starts with a snapshot of the state
//! at the moment it was started; its name is the global offset of its first
//! record).

use crate::model::{MState, Rec};
use crate::refcodec;
use crate::store::CfgSpec;

#[derive(Clone, Debug)]
pub struct RefFile {
    pub id: u64,
    pub bytes: Vec<u8>,
    pub nrec: usize,
    /// number of accepted single-record writes journalled before this file's head
    pub writes_before: usize,
}

#[derive(Clone, Debug)]
pub struct RefJournal {
    pub files: Vec<RefFile>,
    pub max_records: usize,
    pub max_size: usize,
    pub nwrites: usize,
    pub rotations: u64,
}

impl RefJournal {
    pub fn new(cfg: &CfgSpec) -> Self {
        let mut j = RefJournal { files: vec![], max_records: cfg.eff_max_records(), max_size: cfg.eff_max_size(), nwrites: 0, rotations: 0 };
        j.start_file(0, &MState::default());
        j
    }

    pub fn set_limits(&mut self, cfg: &CfgSpec) {
        self.max_records = cfg.eff_max_records();
        self.max_size = cfg.eff_max_size();
    }

    fn start_file(&mut self, id: u64, st: &MState) {
        let head = refcodec::encode(&Rec::State(st.clone()));
        self.files.push(RefFile { id, bytes: head, nrec: 1, writes_before: self.nwrites });
    }

    pub fn end(&self) -> u64 {
        let f = self.files.last().unwrap();
        f.id + f.bytes.len() as u64
    }

    /// Journal one accepted record; `state_after` is the model state after applying it.
    /// Returns (global offset, size) of the record and whether the file was closed.
    pub fn append(&mut self, rec: &Rec, state_after: &MState) -> (u64, u64, bool) {
        let b = refcodec::encode(rec);
        let f = self.files.last_mut().unwrap();
        let off = f.id + f.bytes.len() as u64;
        f.bytes.extend_from_slice(&b);
        f.nrec += 1;
        self.nwrites += 1;
        let full = f.nrec >= self.max_records || f.bytes.len() >= self.max_size;
        if full {
            let id = self.end();
            self.start_file(id, state_after);
            self.rotations += 1;
        }
        (off, b.len() as u64, full)
    }

    /// The rotation that the last `append` predicted did not happen (creating the next chunk file failed):
    /// the record stays the last one of its, now over-full, file; the next record re-checks the limits.
    pub fn undo_last_rotation(&mut self) {
        if self.files.len() >= 2 && self.files.last().map(|f| f.nrec == 1).unwrap_or(false) {
            self.files.pop();
            self.rotations -= 1;
        }
    }

    pub fn file(&self, id: u64) -> Option<&RefFile> {
        self.files.iter().find(|f| f.id == id)
    }
}
