mod frame;
mod genr;
mod journal;
mod logsink;
mod model;
mod props;
mod refcodec;
mod shadow;
mod shim;
mod store;
mod trace;
mod util;

use frame::{Ctx, PropMeta, ShardOut, Tier};

const METAS: &[PropMeta] = &[
    PropMeta {
        id: "C01",
        level: "exploration",
        rule: "seeded Raft-legal histories (vote/append/truncate/purge/commit/user-data/flush) under a random chunk configuration; after EVERY operation the real store's state, read(0,MAX), 3 random sub-ranges and stat() are compared with an in-memory reference log. A case is one history; it is non-trivial if it journalled >=5 records and rotated chunks at least once; distinct = distinct (config, operation list). Histories also contain update_state (vote/commit/user-data change keeping last and purged) and read-only calls (dump, snapshot iteration, abandoned dump). A third of the large-cache histories end with a burst of calls with arguments at the integer limits: where specification and store both accept a call their states are compared as well. Along walks with update_state as an ordinary step every accepted append is read back at once and must return the id and payload just appended (an id that is still resident may be appended again with another payload).",
        assumptions: &["reference model = plain in-memory Raft log written from the property statement", "payload cache limits left at defaults (cache pressure is C07)", "types: LogId=(u64,u64), payload=String"],
        min_distinct: 20,
    },
    PropMeta {
        id: "C02",
        level: "exploration",
        rule: "histories as in C01 with clean restarts (flush, ack, worker idle, drop, open) at random positions and a NEW random configuration at every open; across each restart state, all entries and the Dump text must be unchanged and the continued history must keep agreeing with the reference log. Non-trivial = at least one restart and >=5 records; distinct = distinct (config, operation list). Half of the histories use tiny cache limits at every open (never re-appending at or below a removed id), a third inject EIO into the n-th chunk-file creation by the caller (the runner follows what the store reports for the failed call), 4% of the steps are calls the specification refuses; the full-queue scenario (1024 flushes queued behind a parked worker + one blocked sender) ends with a clean restart. Restart equivalence is also judged on walks in which update_state (moving last / committed to ids of live entries, changing the vote) is mixed with calls a Raft node could make; no claim after a purge that follows a moved-back last.",
        assumptions: &["clean close = flush acknowledged and worker idle before drop (drop-without-idle is C14)"],
        min_distinct: 20,
    },
    PropMeta {
        id: "C06",
        level: "exploration",
        rule: "histories as in C01 with calls the sequential specification rejects injected at ~25% of the steps (lower vote; append equal to last, lower term, at an existing index, with a gap; k-th entry of a batch refused; lower commit; truncate above last+1 / at or below purged). Around each such call: must return Err; state, all entries, cache item count/size, resident set, journal end, on-disk size unchanged; history continues in lock-step with the model; at the end flush + restart must open with the same state. Non-trivial = history with >=1 rejected call. Half of the histories use tiny cache limits (a refused call must not evict). A second Types instantiation with a PARTIALLY ordered vote (same term, different candidate = incomparable) checks that an incomparable vote is refused without trace and survives a restart. A third of the large-cache histories end with a burst of calls with arguments at the integer limits: whatever the specification refuses must be refused. Along walks of 20-60 calls with update_state as an ordinary step, every call that returns an error is framed by (state, all entries, cache item count, cache bytes), which must be unchanged.",
        assumptions: &["worker quiescent at the snapshot points", "a batch append is the sequence of its single-entry writes, stopping at the first refused entry"],
        min_distinct: 20,
    },
    PropMeta {
        id: "C11",
        level: "exploration",
        rule: "histories as in C01; a reference journal predicts every chunk file byte-for-byte from the accepted records, the chunk limits and the rotation rule. After every flush+ack+idle: files on disk are a suffix of the predicted files and byte-identical, names = global offset of first record, files abut, on_disk_size() = journal end - oldest retained start, Dump (real decoder) = reference parse; after every write the returned segment = predicted place of that record; stat() bookkeeping = prediction. Non-trivial = >=1 rotation and >=5 records. Histories contain update_state and dump calls; a quarter inject EIO into a chunk-file creation and the reference journal models the rotation that did not happen; the full-queue scenario compares the files byte for byte after 1025 queued requests were drained. A third of the large-cache histories end with a burst of limit-argument calls followed by a flush, so that what the accepted ones journalled is compared byte for byte.",
        assumptions: &["reference codec and rotation rule written from the format description", "file-name codec over all u64 is sampled, not exhaustive"],
        min_distinct: 20,
    },
    PropMeta {
        id: "C16",
        level: "exploration",
        rule: "a Raft-legal history of 0-40 ops brings the store into a reachable state; then a burst of 6-16 public calls (truncate, read, purge, commit, append, save_vote, save_user_data, stat, on_disk_size, dump, dump_data iteration, flush, finally update_state) with arguments drawn from {0,1,2, purged/first/last/committed index -1,+0,+1,+2, 2^32-1, 2^32, 2^63, u64::MAX-1, u64::MAX} in term and index position, including from>to; every call and a full read-back run under catch_unwind in a build with overflow checks and debug assertions on. Non-trivial = case with >=3 adversarial calls; distinct = distinct (config, call list). A second Types instantiation with a partially ordered vote checks save_vote with incomparable votes under catch_unwind. Second workload: walks of 20-60 public calls aimed at the state the STORE reports, in which update_state (last/purged/committed/vote moved back and forth, also to ids appended earlier) is an ordinary step, followed by appends of ids that are still resident (other payload sizes), truncations, purges, drains, dumps, flushes and restarts that replay the journal; only panics are judged there.",
        assumptions: &["dev profile: overflow-checks and debug-assertions enabled", "a burst stops at the first call on which specification and store disagree about acceptance (that is C01/C06's subject), and after update_state"],
        min_distinct: 20,
    },
    PropMeta {
        id: "C12",
        level: "exploration",
        rule: "generated records of all six kinds (every Option combination of the state record enumerated, integers from {0,1,2^8,2^16,2^32-1,2^32,2^63,u64::MAX,...}, payloads empty..70 kB incl. multi-byte UTF-8 and NUL): encode count = bytes produced, bytes = independent reference encoding, decode(encode(r)) = r consuming exactly n bytes also when followed by garbage; then mutants of each record (per-byte substitutions incl. all 255 values on short records, every truncation, multi-byte edits, inserted/deleted bytes, length prefixes up to 4 GiB-1, random strings): decode under catch_unwind never panics, returns only UnexpectedEof/InvalidData, agrees with the reference decoder, and any Ok re-encodes to exactly the consumed bytes. A case is one decode; distinct = distinct valid records (by encoding) the mutants were derived from. The crate's state value is obtained by decoding a state body under catch_unwind (a panic there is a decode panic). One record in eight is first encoded into a writer that gives up after a random number of bytes (must fail), then encoded again (must equal the reference); Commit records whose CRC-32 is 0, 1, 0xFFFFFFFF, 0x80000000 or random (low index bytes solved for by running the CRC backwards) must decode.",
        assumptions: &["harness types (u64 pairs, String); other Types instantiations not exercised", "reference codec written from the format description"],
        min_distinct: 100,
    },
    PropMeta {
        id: "C04",
        level: "fault_enumeration",
        rule: "scheduled histories (tiny chunks, many flushes with and without callback, several flushes queued behind a parked worker, flushes right before/after rotations) in which the worker is stepped through its write/fdatasync/unlink calls by a seeded schedule, with fault plans: none / one failing fdatasync / two or three consecutive failing fdatasyncs / one failing, short or partial write / sync failure + short write. The recorded trace is replayed into a shadow file system (durable = snapshot at the last successful sync); at every Ack(Ok) event every byte journalled before that flush call must be durable in its chunk file; plus at-most-once, exactly-once without faults, callback order = call order, no Err without fault. Non-trivial = run with >=1 callback; distinct = distinct (thread, syscall kind, file) interleavings of the trace. Also: a failing chunk-file creation by the caller; the full-queue scenario (exactly 1024 flushes, 2 MiB of payload in half of the rounds, queued behind a parked worker plus one sender blocked on the full queue) checked with the same rules. A flush call that fails without an injected fault is a violation (its callback can never fire); full-queue rounds queue up to 6 MiB; a worker that sleeps with requests unprocessed (request lost) is reported as a callback never invoked. Single flushes of 3-12 MiB (10-40 appends of 120-500 kB journalled with the worker idle, then one flush with callback). The built-in channel callback (SyncSender): 3-8 flushes hand clones of one bounded sender (capacity 1-2) to the store and the receiver reads late; every flush must be answered exactly once.",
        assumptions: &["a failed fdatasync leaves durable state unchanged; a later successful fdatasync of the same file makes everything written to it durable", "journal end at the flush call is taken from stat().open_chunk.global_end (cross-checked byte-exactly by C11)"],
        min_distinct: 20,
    },
    PropMeta {
        id: "C08",
        level: "fault_enumeration",
        rule: "purge-heavy scheduled histories (chunk_max_records 1-6, purges inside the log / at last / beyond last, purge records that land in a chunk deleted later, flushes queued behind a parked worker, optional restarts) with fault plans none / one or two failing fdatasyncs / failing write. Offline over the trace + shadow FS, at every successful unlink of a chunk file: (a) it is the oldest chunk present; (d) no entry stored in it is live in the reference log at the scheduling flush; (b) the durable bytes of the remaining files below that flush's journal end are complete, abut, start with a snapshot, and replaying them leaves no index in (purged,last] without its entry. End state (no fault): no closed chunk older than the last purge's chunk holds nothing above the purge point; the directory replays gap-free. Non-trivial = run with >=1 unlink; distinct = distinct interleavings. 2% of the histories fail one unlink; a sixth end with a purge that is never flushed followed by the drop of the store inside the trace (nothing may be deleted on account of it).",
        assumptions: &["creating/unlinking directory entries is durable when the call returns", "'holding nothing above the purge point' is read by log id (a chunk kept only for truncated entries with larger ids is not an alarm)", "an unlink is attributed to the first flush call at which the file was on disk but no longer listed by stat()"],
        min_distinct: 20,
    },
    PropMeta {
        id: "C03",
        level: "fault_enumeration",
        rule: "a scheduled history (tiny chunks, flushes/purges/rotations, worker stepped by a seeded schedule, sometimes a failing fdatasync) is run once under the syscall shim; for EVERY prefix of the recorded trace ending in a file-system call or an Ack(Ok) the synthesiser builds the post-crash images: process crash (all completed calls kept), inside the next write (cut at every record boundary + 3 interior bytes), power loss (per file every record boundary / 2 interior cuts / zero-fill from every boundary in the unsynced range; all-min, all-max, each file varied with the others at min and at max, random combinations). Each distinct image is opened by the real RaftLog::open; when it opens, (state, all entries) must equal the reference log after some prefix p of the accepted single-record writes with acked <= p <= issued. A case = one (crash point, image); distinct = distinct image contents that opened. 40% of the histories carry a fault plan (one or two consecutive failing fdatasyncs, a short write, a failing chunk-file creation); a third of the no-rotation histories contain a 70 kB entry (zero-filled tails > 64 KiB). Every workload runs with a logger installed at Trace level (log arguments are evaluated). One full-queue round per shard: 1025 queued flushes are drained and acknowledged, then the process crashes (files as they are) and recovery must show everything. Real crashes: a child process runs a generated history on the real store (free-running worker, no shim) and reports over a pipe what it issues and which flushes were acknowledged; it is killed with SIGKILL at a seeded point of that protocol and the directory it left is opened: same prefix rule (C03) and must-open rule (C05, known finding D6 excepted on its exact signature), plus one write + flush on the recovered store.",
        assumptions: &["crash model of the statement: completed calls kept, unsynced bytes lost from any byte onward or zero-filled from a record boundary; directory entry creation/removal durable on return", "images on which open fails are C05's subject"],
        min_distinct: 50,
    },
    PropMeta {
        id: "C05",
        level: "fault_enumeration",
        rule: "same trace-prefix crash images as C03 (process crash, inside-write, power-loss families); on EVERY distinct image the real RaftLog::open must return Ok (no Err, no panic); on images that needed repair and a sample of the others the recovered store must accept 8 further legal writes, flush, be acknowledged, restart and agree with the reference log continued from the recovered prefix; a sample of recoveries that repaired something is itself traced and every crash image of that recovery must open too. A case = one (crash point, image); distinct = distinct image contents. Every workload runs with a logger installed at Trace level. One full-queue round per shard: after 1025 queued flushes were drained and acknowledged the process crashes and the directory must open. Real crashes: a child process runs a generated history on the real store (free-running worker, no shim) and reports over a pipe what it issues and which flushes were acknowledged; it is killed with SIGKILL at a seeded point of that protocol and the directory it left is opened: same prefix rule (C03) and must-open rule (C05, known finding D6 excepted on its exact signature), plus one write + flush on the recovered store.",
        assumptions: &["same crash model as C03", "known finding D6 is matched by its exact signature (gap caused by a chunk tail the worker had not yet written when the next chunk file already existed)"],
        min_distinct: 50,
    },
    PropMeta {
        id: "C07",
        level: "exploration",
        rule: "scheduled histories under tiny payload-cache limits (max_items in {0,1,2,3,5,default}, capacity in {0,8,64,300,default}) with truncations, purges, rotations and restarts; the worker is stepped through its write / per-file fdatasync / unlink (/ack) calls and at EVERY point where it is parked or idle - data still buffered, queued, written-unsynced, older-file-synced, boundary moved, acked, unlinked - read(0,MAX), dump_data().iter() and a random sub-range must return exactly the reference log's entries without error; at random steps 4 reader threads read everything while the worker runs freely and must all see the same. Half of the histories never re-append with a lower term (no exemption possible there). Non-trivial = run in which reads were served from disk (cache misses > 0); distinct = distinct (config, interleaving). Also: a failing chunk-file creation in a fifth of the histories; dump()/dump_data() calls inside the histories; process-crash / inside-write images taken around chunk-file creations are recovered under the same tiny limits and read after recovery, after drain and after three appends; the full-queue scenario ends with 'chunk closed, cache drained, read everything'. Held snapshots are iterated twice (sometimes after an abandoned first pass). Large-record rounds: entries of 130-600 kB in closed chunks, cache limits 0, 2-8 reader threads (range reads and snapshot iterations) at once.",
        assumptions: &["known finding D7 is matched only when the unreadable entry's log id is <= a log id removed by an earlier truncation and the error is 'Chunk not found ... open cache-miss read'"],
        min_distinct: 20,
    },
    PropMeta {
        id: "C15",
        level: "exploration",
        rule: "same scheduled histories and cache limits as C07; at every point where the worker is parked or idle the hook verif_cache_resident() (resident (log id, size) list + boundary under the cache lock) is compared with stat(): item count, byte size, boundary; right after every append (worker parked/idle since before the call, so the boundary in force is the one observed) an over-limit cache must hold no resident id <= boundary; at the end (worker idle) drain_cache_evictable() must leave no resident id <= boundary, also after a reopen. Non-trivial = run with >10 observations; distinct = distinct (config, interleaving). The limits used are the CONFIGURED ones (and stat() must report them); in half of the runs three reader threads read continuously while the single drain call is made. The count/size rule is also evaluated after every call of walks in which update_state moves last/purged back so that log ids still resident are appended again, truncated, purged, drained and replayed by restarts. Large-chunk rounds: chunks of 70/151/300 records under max_items 0/3/10 keep a whole chunk pinned; after close + sync the boundary jumps over all of it and the next append must restore the limit clause. Also: two threads call stat() in a tight loop while a third drains the cache (fixed-size payloads: every snapshot must satisfy bytes = 9 x items); a Types instantiation whose payload_size() is the payload capacity (not preserved by clone).",
        assumptions: &["hook H1 (feature verif-hooks) returns the cache map contents under its RwLock", "the limit clause is evaluated after appends only (the only writes that insert and evict)"],
        min_distinct: 20,
    },
    PropMeta {
        id: "C14",
        level: "exploration",
        rule: "purge-heavy scheduled histories (tiny chunks) end with purge + flush(callback); the worker is stepped exactly until that callback has fired, which typically leaves it parked in front of its queued unlink/write calls; the store is then dropped on a helper thread and the directory reopened at a seeded placement: 0 right after drop returned, 1 after the old worker advanced k calls, 2 with the new opener parked inside open() (after listing the directory) while the old worker performs its remaining calls, 3 after the old worker ended. Oracles: no directory-mutating call of the dropped instance's worker thread appears in the trace after drop() returned; the reopen succeeds and shows exactly the acknowledged state and entries; the new instance appends, purges, flushes and is acknowledged Ok. Sound for a detached worker and for a joining Drop (then drop only returns once the released worker has ended). Non-trivial = case in which worker calls were still pending at drop; distinct = distinct (history, schedule, placement). Five placements (4 = an opener already under way when the drop starts, parked at the gate point 'about to open LOCK' and released after drop() returned); one case in five keeps the old worker parked for 400 ms before releasing it; 0-3 appends are issued after the last acknowledged flush without flushing (after the reopen any prefix >= the acknowledged state is accepted); in half of the cases an open is attempted while drop() is in progress with the worker parked (must be refused). After the reopen a second RaftLog and a Dump are attempted while the new instance is alive (must be refused: reported under C13); the new instance does two flush rounds (append+purge+flush, append+flush), both must be acknowledged; that a flush is never acknowledged is concluded from the worker's state (ended, or asleep with requests unprocessed), never from a clock. A dump_data() snapshot taken from the old instance before its last purge is dropped while a new instance owns the directory: no chunk file may appear or vanish.",
        assumptions: &["a 50 ms wait decides only when the parked worker is released, never a verdict", "same-process reopen; cross-process reopen differs only in the flock, which C13 covers"],
        min_distinct: 20,
    },
    PropMeta {
        id: "C09",
        level: "fault_enumeration",
        rule: "clean images (1-6 chunk files) are produced by the store itself from generated histories; then EVERY byte position inside every complete record of every chunk file is replaced (quick: the 8 single-bit flips, 0x00, 0xFF and 2 random values; thorough: all 255 other values, images marked exhaustive) and every middle chunk is removed. Each mutated image is opened by the real store under catch_unwind: it must not panic; it must refuse (or report an error when reading every entry) - an open that succeeds without any error is a violation whether or not state/entries differ; when open refuses, every chunk file other than the newest must be byte-identical afterwards. Mutations are classified by the reference codec (field: type tag/version/option tag/integer/length prefix/bytes/checksum; head snapshot vs other record; newest vs older chunk). A case = one mutated image opened; distinct = distinct clean images swept. Additionally: bytes of live entries in closed chunks are altered underneath an OPEN store with an empty cache and the entry is read (must error or return what was written); a sample of the mutations is also opened with truncate_incomplete_record=false (must be refused, files untouched) and listed with the offline Dump tool (must show an error, not a shorter journal). Per shard one image with the purged chunk files still present (crash between the sync of the purge record and the unlink; a refused open must leave them alone too) and one image whose last record is 4-8 kB long (last two records swept).",
        assumptions: &["CRC-32 detects every single-byte change, so no single-byte mutation is semantically neutral", "known findings D11a/D11b are matched only by their exact witness signatures"],
        min_distinct: 4,
    },
    PropMeta {
        id: "C10",
        level: "fault_enumeration",
        rule: "clean images as in C09; the newest chunk is cut at EVERY byte position 0..=len, and its tail from EVERY record boundary is replaced by zeros of length {1,2,3,7,8,19,20,21,27,28,29,64,1023,1024,1025,33792}. With tail truncation enabled: open must succeed, state and entries must equal the reference replay of exactly the records completely present, afterwards no file may keep a damaged tail and the damaged file must end at the last complete record, the directory must replay to the same state, and 5 further writes + flush + restart must agree with the model. With truncate_incomplete_record=false: an image with an incomplete/zero tail must be refused with every file untouched; a cut exactly on a record boundary must open with exactly the records present. A case = one open; distinct = distinct clean images. Zero-tail lengths also 65536, 65537, 70000, 200000. Half of the continuations run under a tiny cache with drain_cache_evictable() after recovery and after every write (images built from histories that never re-append at or below a removed id). Zero tails of 21 B - 70 kB are also applied to stores of a second Types instantiation whose vote decoder rejects an all-zero vote with an error kind of its own. A sixth of the cuts are also recovered by a store configured with chunk_max_size 1-100 / chunk_max_records 1-2 (configurations may differ between runs).",
        assumptions: &["an empty newest chunk file (cut at 0) counts as cut on a boundary"],
        min_distinct: 4,
    },
    PropMeta {
        id: "C13",
        level: "exploration",
        rule: "a directory holding a clean store-made image (data, nothing pending) is contended for by 2-8 threads of one process and by 2-6 child processes, each looping {RaftLog::open or Dump::new (1 in 3); if Ok: use it (read all entries / dump), hold briefly, drop}. Threads: an atomic owner counter incremented after open returned Ok and decremented before drop starts must never exceed 1. Processes: ownership intervals [after open Ok, before drop] on CLOCK_MONOTONIC are merged offline and must not overlap. After every refused attempt (threads) and at the end (both) the chunk files must be byte-identical to the original image; after all contenders are gone open must succeed. A case = one attempt (acquisition or refusal); distinct = rounds in which both acquisitions and refusals were observed. Plus: a WRITING owner whose caller thread and worker are stepped through their file-system calls by the gate, with RaftLog::open + Dump::new attempted at every parked point (must be refused; any chunk-file mutation by the contender's thread id in the trace is a violation); an open attempt while the previous owner's drop() has not returned and its worker is parked (must be refused while that worker thread is alive); a fork round (a child forked while the owner was alive still holds inherited descriptors; after the owner is dropped the next open must succeed). Further rounds: the owner is another process (this process is refused, the owner exits, this process must then open); the same directory under other path spellings (symlink, dir/., dir//, dir/../dir); the owner's worker ends on an injected I/O error while the owner lives on (still owned); a second RaftLog/Dump attempted while the instance that took over after a drop is alive. Also: the flock() call of the contender fails with ENOLCK/EINTR/EIO/ENOSYS while an owner lives (must still be refused); the owner is dropped while a dump_data() snapshot of it is alive (the next open must succeed). Races of 2-6 threads for a directory that is still empty: the winner writes and flushes 6 entries, later winners continue; at the end all of them must be there (a refused opener must not clean up).",
        assumptions: &["one host, local file system (tmpfs); flock semantics of Linux", "owners do not write, so any change of a chunk file is attributable to an attempt"],
        min_distinct: 8,
    },
];

fn meta(prop: &str) -> Option<&'static PropMeta> {
    METAS.iter().find(|m| m.id == prop)
}

fn run_shard(ctx: &mut Ctx) {
    match ctx.prop.as_str() {
        "C01" | "C02" | "C06" | "C11" | "C16" => props::seq::run_shard(ctx),
        "C12" => props::codec::run_shard(ctx),
        "C04" => props::c04::run_shard(ctx),
        "C08" => props::c08::run_shard(ctx),
        "C03" | "C05" => props::crash::run_shard(ctx),
        "C07" | "C15" => props::cache::run_shard(ctx),
        "C14" => props::c14::run_shard(ctx),
        "C09" | "C10" => props::image::run_shard(ctx),
        "C13" => props::c13::run_shard(ctx),
        p => ctx.out.inconclusive.push(format!("no engine for {}", p)),
    }
}

fn budget(prop: &str, tier: Tier) -> f64 {
    let _ = prop;
    match tier {
        // the quick tier is bounded by its fixed workload (5-30 s on an idle machine); the time cap only matters on a
        // heavily loaded one, where the same workload must still complete
        Tier::Quick => 150.0,
        Tier::Thorough => std::env::var("RLMON_THOROUGH_S").ok().and_then(|s| s.parse().ok()).unwrap_or(180.0),
    }
}

fn arg_after(args: &[String], k: &str) -> Option<String> {
    args.iter().position(|a| a == k).and_then(|i| args.get(i + 1).cloned())
}

fn main() {
    let args: Vec<String> = std::env::args().collect();
    store::install_panic_hook();
    logsink::install();
    let cmd = args.get(1).map(|s| s.as_str()).unwrap_or("");
    let code = match cmd {
        "check" => cmd_check(&args),
        "shard" => cmd_shard(&args),
        "replay" => cmd_replay(&args),
        "c13-child" => props::c13::child_main(&args),
        "c13-hold" => props::c13x::hold_main(&args),
        "kill9-child" => props::kill9::child_main(&args),
        "miri" => props::miri::main(&args),
        "c12-big" => props::codec::big_child(&args),
        _ => {
            eprintln!("usage: rlmon check <Cnn> [--tier quick|thorough] [--seed N] [--shards N] | replay <file>");
            2
        }
    };
    // under `-Zmiri-many-seeds` the interpreted runs share one scratch root: leave it to each run's own clean-up
    #[cfg(not(miri))]
    util::cleanup_scratch();
    std::process::exit(code);
}

fn parse_tier(args: &[String]) -> Tier {
    let t = arg_after(args, "--tier").or_else(|| std::env::var("VERIF_TIER").ok()).unwrap_or_else(|| "quick".into());
    if t == "thorough" { Tier::Thorough } else { Tier::Quick }
}

fn parse_seed(args: &[String]) -> u64 {
    arg_after(args, "--seed").or_else(|| std::env::var("VERIF_SEED").ok()).and_then(|s| s.trim().parse::<u64>().ok()).unwrap_or(1)
}

fn cmd_shard(args: &[String]) -> i32 {
    // shard <prop> <tier> <seed> <idx> <n> <out>
    let prop = args[2].clone();
    let tier = if args[3] == "thorough" { Tier::Thorough } else { Tier::Quick };
    let seed: u64 = args[4].parse().unwrap_or(1);
    let idx: u32 = args[5].parse().unwrap_or(0);
    let n: u32 = args[6].parse().unwrap_or(1);
    let outp = args[7].clone();
    let _ = frame::PARTIAL_OUT.set(outp.clone());
    let mut ctx = Ctx { prop: prop.clone(), tier, seed, shard: idx, nshards: n, out: ShardOut::default(), t0: util::now_s(), budget_s: budget(&prop, tier), phase_deadline: f64::MAX };
    run_shard(&mut ctx);
    ctx.out.count("log_lines_of_the_store_formatted(logger_installed_at_trace_level)", logsink::lines());
    let s = serde_json::to_string(&ctx.out.to_json()).unwrap_or_default();
    if std::fs::write(&outp, s).is_err() {
        return 4;
    }
    0
}

fn cmd_check(args: &[String]) -> i32 {
    let Some(prop) = args.get(2).cloned() else { return 2 };
    let Some(meta) = meta(&prop) else {
        eprintln!("unknown property {}", prop);
        return 2;
    };
    let tier = parse_tier(args);
    let seed = parse_seed(args);
    let nshards: u32 = arg_after(args, "--shards").and_then(|s| s.parse().ok()).unwrap_or(16);
    let t0 = util::now_s();
    let exe = std::env::current_exe().expect("current exe");
    let tmp = util::fresh_dir("shards");
    let mut kids = vec![];
    for i in 0..nshards {
        let outp = format!("{}/shard-{}.json", tmp, i);
        let child = std::process::Command::new(&exe)
            .args(["shard", &prop, tier.name(), &seed.to_string(), &i.to_string(), &nshards.to_string(), &outp])
            .stdout(std::process::Stdio::null())
            .spawn();
        kids.push((i, outp, child));
    }
    let mut merged = ShardOut::default();
    let mut failures = vec![];
    // generous watchdog: a shard that overruns it is an inconclusive run, never a violation
    let limit = budget(&prop, tier) * 3.0 + 120.0;
    for (i, outp, child) in kids {
        match child {
            Err(e) => failures.push(format!("shard {} did not start: {}", i, e)),
            Ok(mut c) => {
                let status = loop {
                    match c.try_wait() {
                        Ok(Some(st)) => break Some(st),
                        Ok(None) => {
                            if util::now_s() - t0 > limit {
                                let _ = c.kill();
                                let _ = c.wait();
                                break None;
                            }
                            std::thread::sleep(std::time::Duration::from_millis(20));
                        }
                        Err(_) => break None,
                    }
                };
                match status {
                    Some(st) if st.success() => match std::fs::read_to_string(&outp).ok().and_then(|s| serde_json::from_str::<serde_json::Value>(&s).ok()) {
                        Some(v) => merged.merge_json(&v),
                        None => failures.push(format!("shard {} wrote no result", i)),
                    },
                    Some(st) => {
                        failures.push(format!("shard {} exited with {:?}", i, st.code()));
                        if let Some(v) = std::fs::read_to_string(format!("{}.partial", outp)).ok().and_then(|s| serde_json::from_str::<serde_json::Value>(&s).ok()) {
                            merged.merge_json(&v);
                        }
                    }
                    None => {
                        failures.push(format!("shard {} hit the wall-clock watchdog", i));
                        // what it had found until then still counts
                        if let Some(v) = std::fs::read_to_string(format!("{}.partial", outp)).ok().and_then(|s| serde_json::from_str::<serde_json::Value>(&s).ok()) {
                            merged.merge_json(&v);
                        }
                    }
                }
            }
        }
    }
    util::remove_dir(&tmp);
    if tier == Tier::Thorough && (prop == "C07" || prop == "C12") && std::env::var("RLMON_NO_MIRI").is_err() {
        run_miri(&prop, seed, &mut merged);
    }
    let wall = util::now_s() - t0;
    frame::finish(meta, tier, seed, &mut merged, wall, failures)
}

/// Supplementary UB / data-race detection: the same oracles on a reduced workload under Miri.
/// Miri being unavailable is recorded in the evidence and never changes the verdict; a Miri
/// error report (undefined behaviour, data race) or an oracle failure under Miri is a violation.
fn run_miri(prop: &str, seed: u64, merged: &mut ShardOut) {
    let what = if prop == "C07" { "c07" } else { "c12" };
    let harness = format!("{}/harness", frame::verif_root());
    let jobs: Vec<(u64, u64, Option<&str>)> = if prop == "C07" {
        // 3 histories x 8 Miri scheduler seeds each
        (0..3).map(|i| (seed.wrapping_mul(31).wrapping_add(i), 14, Some("-Zmiri-many-seeds=0..8"))).collect()
    } else {
        (0..8).map(|i| (seed.wrapping_mul(31).wrapping_add(i), 100, None)).collect()
    };
    let t0 = util::now_s();
    let mut kids = vec![];
    for (js, n, extra) in &jobs {
        let flags = format!("-Zmiri-disable-isolation {}", extra.unwrap_or(""));
        let c = std::process::Command::new("cargo")
            .current_dir(&harness)
            .args(["+nightly", "miri", "run", "--offline", "--", "miri", what, &js.to_string(), &n.to_string()])
            .env("MIRIFLAGS", flags.trim())
            .env("CARGO_NET_OFFLINE", "true")
            .stdout(std::process::Stdio::piped())
            .stderr(std::process::Stdio::piped())
            .spawn();
        kids.push((*js, c));
    }
    for (js, c) in kids {
        let Ok(c) = c else {
            merged.tag("miri", "unavailable: cargo +nightly miri could not be started");
            continue;
        };
        // wait with a watchdog
        let pid = c.id();
        let handle = std::thread::spawn(move || c.wait_with_output());
        let mut killed = false;
        while !handle.is_finished() {
            if util::now_s() - t0 > 900.0 && !killed {
                unsafe { libc::kill(pid as i32, libc::SIGKILL) };
                killed = true;
            }
            std::thread::sleep(std::time::Duration::from_millis(100));
        }
        let Ok(Ok(out)) = handle.join() else {
            merged.tag("miri", "unavailable: wait failed");
            continue;
        };
        let so = String::from_utf8_lossy(&out.stdout).to_string();
        let se = String::from_utf8_lossy(&out.stderr).to_string();
        if killed {
            merged.tag("miri", "a Miri job hit the 15 min watchdog (not counted)");
            continue;
        }
        let oks: Vec<&str> = so.lines().filter(|l| l.starts_with("MIRI-OK")).collect();
        for l in &oks {
            merged.count("miri_runs_ok", 1);
            if let Some(n) = l.split("observations=").nth(1).and_then(|x| x.trim().parse::<u64>().ok()) {
                merged.count("miri_observations(decodes_or_concurrent_reads)", n);
            }
        }
        let ub = se.lines().find(|l| l.contains("Undefined Behavior") || l.contains("Data race detected") || l.contains("error: unsupported operation") || l.contains("memory leaked"));
        if let Some(l) = so.lines().find(|l| l.starts_with("MIRI-VIOL")) {
            let sig = l.split(' ').nth(1).unwrap_or("miri").to_string();
            merged.viol(frame::Viol { prop: prop.to_string(), sig, text: l.to_string(), replay: serde_json::json!({"kind": "miri", "what": what, "seed": js.to_string()}) });
        } else if let Some(l) = ub {
            if l.contains("unsupported operation") {
                merged.tag("miri", &format!("unsupported operation under Miri (not counted): {}", l.trim()));
            } else {
                merged.viol(frame::Viol { prop: prop.to_string(), sig: format!("{}:miri:{}", prop, l.trim().chars().take(80).collect::<String>()), text: format!("Miri reported: {} (seed {})", l.trim(), js), replay: serde_json::json!({"kind": "miri", "what": what, "seed": js.to_string(), "stderr_tail": se.lines().rev().take(30).collect::<Vec<_>>()}) });
            }
        } else if oks.is_empty() {
            let reason = se.lines().rev().find(|l| l.contains("error")).unwrap_or("no MIRI-OK line").to_string();
            merged.tag("miri", &format!("unavailable: {}", reason.chars().take(160).collect::<String>()));
        }
    }
    merged.tag("miri", &format!("ran {} job(s) for {} in {:.0}s", jobs.len(), what, util::now_s() - t0));
}

fn cmd_replay(args: &[String]) -> i32 {
    let Some(path) = args.get(2) else { return 2 };
    let Ok(s) = std::fs::read_to_string(path) else {
        eprintln!("cannot read {}", path);
        return 2;
    };
    let Ok(v) = serde_json::from_str::<serde_json::Value>(&s) else { return 2 };
    let rp = &v["replay"];
    let res = match rp["kind"].as_str().unwrap_or("") {
        "seq" => props::seq::replay(rp),
        "codec" => props::codec::replay(rp),
        "c04" => props::c04::replay(rp),
        "c08" => props::c08::replay(rp),
        "crash" => props::crash::replay(rp),
        "c14" => props::c14::replay(rp),
        "c13" => props::c13::replay(rp),
        "miri" => {
            // re-run the same oracle natively (the Miri-specific part needs `cargo +nightly miri run -- miri <what> <seed> <n>`)
            let what = rp["what"].as_str().unwrap_or("c12").to_string();
            let seed = rp["seed"].as_str().unwrap_or("1").to_string();
            let n = if what == "c07" { "14" } else { "100" };
            println!("to reproduce under Miri: cd /verif/harness && MIRIFLAGS=-Zmiri-disable-isolation cargo +nightly miri run -- miri {} {} {}", what, seed, n);
            let code = props::miri::main(&["rlmon".into(), "miri".into(), what, seed, n.into()]);
            return code;
        }
        "filename" => props::seq::replay_file_name(rp),
        "pvote" => props::pvote::replay(rp),
        "pvtail" => props::pvote::replay_tail(rp),
        "pcap" => props::pvote::replay_pcap(rp),
        "sccb" => props::pvote::replay_sccb(rp),
        "c15t" => {
            let seed: u64 = rp["seed"].as_str().and_then(|s| s.parse().ok()).unwrap_or(1);
            (0..20).find_map(|_| props::seq::torn_stat_round(seed).1)
        }
        "c16c" => {
            let seed: u64 = rp["seed"].as_str().and_then(|s| s.parse().ok()).unwrap_or(1);
            (0..20).find_map(|_| props::seq::c16_concurrent(seed))
        }
        "c16w" => props::c16walk::replay(rp),
        "c15big" => props::bigchunk::replay(rp),
        "kill9" => props::kill9::replay(rp),
        "c07big" => props::bigread::replay(rp),
        "c15w" => props::c16walk::replay15(rp),
        "c02w" => props::c16walk::replay02(rp),
        "c06w" => props::c16walk::replay06(rp),
        "c01w" => props::c16walk::replay01(rp),
        "maxbatch" => props::maxbatch::replay(rp),
        "c09" => props::image::replay(rp, true),
        "c10" => props::image::replay(rp, false),
        "c07" => props::cache::replay(rp, true),
        "c15" => props::cache::replay(rp, false),
        k => {
            eprintln!("unknown replay kind {}", k);
            return 2;
        }
    };
    match res {
        Some(vi) => {
            println!("reproduced: {} :: {}", vi.sig, vi.text);
            println!("VIOLATION property={} replay={}", vi.prop, path);
            1
        }
        None => {
            println!("not reproduced (no oracle failed)");
            0
        }
    }
}
