//! In-binary interposition of the libc entry points std uses for file I/O.
//!
//! std is linked statically into this executable and references `open64`,
//! `write`, `fdatasync`, ... as undefined libc symbols; defining them here
//! makes the linker bind std's references to these definitions. The real
//! operation is performed with `libc::syscall`. Only files whose path starts
//! with the registered prefix and ends in `.wal` are tracked; everything else
//! takes a lock-free pass-through.

#![allow(clippy::missing_safety_doc)]

use std::sync::atomic::{AtomicU32, Ordering};

#[cfg(not(miri))]
use libc::{c_char, c_int, c_void, mode_t, off64_t, size_t, ssize_t};

#[cfg(not(miri))]
use crate::trace::{self, Ek, FaultAction, Sk};

const NFD: usize = 65536;
static FDS: [AtomicU32; NFD] = [const { AtomicU32::new(0) }; NFD];

pub fn clear_fd_table() {
    for f in FDS.iter() {
        f.store(0, Ordering::Relaxed);
    }
}

#[cfg(not(miri))]
#[inline]
fn tracked(fd: c_int) -> Option<u32> {
    if fd < 0 || fd as usize >= NFD {
        return None;
    }
    let v = FDS[fd as usize].load(Ordering::Relaxed);
    if v == 0 { None } else { Some(v - 1) }
}

#[cfg(not(miri))]
unsafe fn set_errno(e: c_int) {
    unsafe { *libc::__errno_location() = e };
}

#[cfg(not(miri))]
unsafe fn do_open(path: *const c_char, flags: c_int, mode: mode_t) -> c_int {
    let real = |p: *const c_char| unsafe { libc::syscall(libc::SYS_openat, libc::AT_FDCWD, p, flags | libc::O_LARGEFILE, mode as libc::c_uint) as c_int };
    if !trace::ENABLED.load(Ordering::Relaxed) || path.is_null() {
        return real(path);
    }
    let bytes = unsafe { std::ffi::CStr::from_ptr(path) }.to_bytes();
    if bytes.ends_with(b"/LOCK") {
        // not tracked, but a point where a gated helper thread can be parked: "about to take the directory lock"
        if let Ok(s) = std::str::from_utf8(bytes) {
            let ours = {
                let g = trace::lock();
                g.as_ref().map(|t| s.starts_with(&t.prefix)).unwrap_or(false)
            };
            if ours {
                trace::gate_arrive(trace::current_role(), Sk::OpenRd, trace::LOCK_POINT);
            }
        }
        return real(path);
    }
    if !bytes.ends_with(b".wal") {
        return real(path);
    }
    let Ok(s) = std::str::from_utf8(bytes) else { return real(path) };
    // cheap prefix test without holding the lock for unrelated paths
    let is_ours = {
        let g = trace::lock();
        match g.as_ref() {
            Some(t) => s.starts_with(&t.prefix),
            None => false,
        }
    };
    if !is_ours {
        return real(path);
    }
    let role = trace::current_role();
    let tid = trace::current_tid();
    let creating = flags & libc::O_CREAT != 0;
    let mut pid_for_gate = u32::MAX;
    {
        let mut g = trace::lock();
        if let Some(t) = g.as_mut() {
            pid_for_gate = t.path_id(s);
        }
    }
    trace::gate_arrive(role, if creating { Sk::Create } else { Sk::OpenRd }, pid_for_gate);
    let mut g = trace::lock();
    let Some(t) = g.as_mut() else { return real(path) };
    let pid = t.path_id(s);
    if creating {
        if let Some(FaultAction::Eio) = t.fault_for(role, Sk::Create) {
            unsafe { set_errno(libc::EIO) };
            return -1;
        }
    }
    let existed = creating && std::path::Path::new(s).exists();
    let fd = real(path);
    if fd >= 0 && (fd as usize) < NFD {
        FDS[fd as usize].store(pid + 1, Ordering::Relaxed);
        if creating && !existed {
            t.push(tid, role, Ek::Create { path: pid });
        } else {
            t.push(tid, role, Ek::OpenRd { path: pid });
        }
    }
    fd
}

#[cfg(not(miri))]
#[unsafe(no_mangle)]
pub unsafe extern "C" fn open64(path: *const c_char, flags: c_int, mode: mode_t) -> c_int {
    unsafe { do_open(path, flags, mode) }
}

#[cfg(not(miri))]
#[unsafe(no_mangle)]
pub unsafe extern "C" fn open(path: *const c_char, flags: c_int, mode: mode_t) -> c_int {
    unsafe { do_open(path, flags, mode) }
}

#[cfg(not(miri))]
#[unsafe(no_mangle)]
pub unsafe extern "C" fn close(fd: c_int) -> c_int {
    if fd >= 0 && (fd as usize) < NFD {
        FDS[fd as usize].store(0, Ordering::Relaxed);
    }
    unsafe { libc::syscall(libc::SYS_close, fd) as c_int }
}

#[cfg(not(miri))]
#[unsafe(no_mangle)]
pub unsafe extern "C" fn write(fd: c_int, buf: *const c_void, n: size_t) -> ssize_t {
    let Some(pid) = tracked(fd) else {
        return unsafe { libc::syscall(libc::SYS_write, fd, buf, n) as ssize_t };
    };
    let role = trace::current_role();
    let tid = trace::current_tid();
    trace::gate_arrive(role, Sk::Write, pid);
    let mut g = trace::lock();
    let Some(t) = g.as_mut() else {
        return unsafe { libc::syscall(libc::SYS_write, fd, buf, n) as ssize_t };
    };
    let off = unsafe { libc::syscall(libc::SYS_lseek, fd, 0, libc::SEEK_CUR) } as i64;
    let data = unsafe { std::slice::from_raw_parts(buf as *const u8, n) }.to_vec();
    let fault = t.fault_for(role, Sk::Write);
    let (res, err) = match fault {
        Some(FaultAction::Eio) => (-1i64, libc::EIO),
        Some(FaultAction::ShortWrite(k)) if k < n => {
            let r = unsafe { libc::syscall(libc::SYS_write, fd, buf, k) } as i64;
            (r, 0)
        }
        Some(FaultAction::PartialThenEio(k)) if k < n => {
            let r = unsafe { libc::syscall(libc::SYS_write, fd, buf, k) } as i64;
            // bytes are on disk, the call reports failure
            t.push(tid, role, Ek::Write { path: pid, off: off.max(0) as u64, data: data[..r.max(0) as usize].to_vec(), res: r });
            unsafe { set_errno(libc::EIO) };
            return -1;
        }
        _ => {
            let r = unsafe { libc::syscall(libc::SYS_write, fd, buf, n) } as i64;
            (r, 0)
        }
    };
    if res < 0 && err != 0 {
        t.push(tid, role, Ek::Write { path: pid, off: off.max(0) as u64, data, res: -(err as i64) });
        unsafe { set_errno(err) };
        return -1;
    }
    t.push(tid, role, Ek::Write { path: pid, off: off.max(0) as u64, data, res });
    res as ssize_t
}

#[cfg(not(miri))]
unsafe fn do_sync(fd: c_int, nr: libc::c_long) -> c_int {
    let Some(pid) = tracked(fd) else {
        return unsafe { libc::syscall(nr, fd) as c_int };
    };
    let role = trace::current_role();
    let tid = trace::current_tid();
    trace::gate_arrive(role, Sk::Sync, pid);
    let mut g = trace::lock();
    let Some(t) = g.as_mut() else {
        return unsafe { libc::syscall(nr, fd) as c_int };
    };
    if let Some(FaultAction::Eio) = t.fault_for(role, Sk::Sync) {
        t.push(tid, role, Ek::Sync { path: pid, res: -libc::EIO });
        unsafe { set_errno(libc::EIO) };
        return -1;
    }
    // The shadow model decides durability; the real fdatasync on tmpfs is a no-op anyway.
    let r = unsafe { libc::syscall(nr, fd) as c_int };
    t.push(tid, role, Ek::Sync { path: pid, res: if r == 0 { 0 } else { -1 } });
    r
}

#[cfg(not(miri))]
#[unsafe(no_mangle)]
pub unsafe extern "C" fn fdatasync(fd: c_int) -> c_int {
    unsafe { do_sync(fd, libc::SYS_fdatasync) }
}

#[cfg(not(miri))]
#[unsafe(no_mangle)]
pub unsafe extern "C" fn fsync(fd: c_int) -> c_int {
    unsafe { do_sync(fd, libc::SYS_fsync) }
}

#[cfg(not(miri))]
unsafe fn do_trunc(fd: c_int, len: off64_t) -> c_int {
    let Some(pid) = tracked(fd) else {
        return unsafe { libc::syscall(libc::SYS_ftruncate, fd, len) as c_int };
    };
    let role = trace::current_role();
    let tid = trace::current_tid();
    trace::gate_arrive(role, Sk::Trunc, pid);
    let mut g = trace::lock();
    let r = unsafe { libc::syscall(libc::SYS_ftruncate, fd, len) as c_int };
    if let Some(t) = g.as_mut() {
        t.push(tid, role, Ek::Trunc { path: pid, len: len as u64, res: r });
    }
    r
}

#[cfg(not(miri))]
#[unsafe(no_mangle)]
pub unsafe extern "C" fn ftruncate64(fd: c_int, len: off64_t) -> c_int {
    unsafe { do_trunc(fd, len) }
}

#[cfg(not(miri))]
#[unsafe(no_mangle)]
pub unsafe extern "C" fn ftruncate(fd: c_int, len: off64_t) -> c_int {
    unsafe { do_trunc(fd, len) }
}

#[cfg(not(miri))]
#[unsafe(no_mangle)]
pub unsafe extern "C" fn unlink(path: *const c_char) -> c_int {
    let real = || unsafe { libc::syscall(libc::SYS_unlinkat, libc::AT_FDCWD, path, 0) as c_int };
    if !trace::ENABLED.load(Ordering::Relaxed) || path.is_null() {
        return real();
    }
    let bytes = unsafe { std::ffi::CStr::from_ptr(path) }.to_bytes();
    if !bytes.ends_with(b".wal") {
        return real();
    }
    let Ok(s) = std::str::from_utf8(bytes) else { return real() };
    let pid = {
        let mut g = trace::lock();
        match g.as_mut() {
            Some(t) if s.starts_with(&t.prefix) => Some(t.path_id(s)),
            _ => None,
        }
    };
    let Some(pid) = pid else { return real() };
    let role = trace::current_role();
    let tid = trace::current_tid();
    trace::gate_arrive(role, Sk::Unlink, pid);
    let mut g = trace::lock();
    let Some(t) = g.as_mut() else { return real() };
    if let Some(FaultAction::Eio) = t.fault_for(role, Sk::Unlink) {
        t.push(tid, role, Ek::Unlink { path: pid, res: -libc::EIO });
        unsafe { set_errno(libc::EIO) };
        return -1;
    }
    let r = real();
    t.push(tid, role, Ek::Unlink { path: pid, res: r });
    r
}

#[cfg(not(miri))]
#[unsafe(no_mangle)]
pub unsafe extern "C" fn pread64(fd: c_int, buf: *mut c_void, n: size_t, off: off64_t) -> ssize_t {
    let r = unsafe { libc::syscall(libc::SYS_pread64, fd, buf, n, off) as ssize_t };
    if tracked(fd).is_some() {
        if let Some(t) = trace::lock().as_mut() {
            t.pread_calls += 1;
            if r > 0 {
                t.pread_bytes += r as u64;
            }
        }
    }
    r
}


// ---- flock: passed through; the calling thread can ask for its next calls to fail with a given errno (a lock
// service that is unavailable, ENOLCK, as opposed to a lock that is held, EWOULDBLOCK)
thread_local! {
    pub static FLOCK_FAULT: std::cell::Cell<i32> = const { std::cell::Cell::new(0) };
}
pub static FLOCK_FAULTS_FIRED: AtomicU32 = AtomicU32::new(0);

#[cfg(not(miri))]
#[unsafe(no_mangle)]
pub unsafe extern "C" fn flock(fd: c_int, op: c_int) -> c_int {
    let e = FLOCK_FAULT.with(|c| c.get());
    if e != 0 && (op & libc::LOCK_UN) == 0 {
        FLOCK_FAULTS_FIRED.fetch_add(1, Ordering::Relaxed);
        unsafe { set_errno(e) };
        return -1;
    }
    unsafe { libc::syscall(libc::SYS_flock, fd, op) as c_int }
}
