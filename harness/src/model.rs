//! Reference model: a plain in-memory Raft log (sequential specification).
//!
//! Written from the property statements, independent of the crate's state
//! machine. `LogId = (term, index)` ordered lexicographically.

use std::collections::BTreeMap;

use serde_json::{Value, json};

pub type LogId = (u64, u64);

#[derive(Clone, Debug, PartialEq, Eq, Hash, Default)]
pub struct MState {
    pub vote: Option<(u64, u64)>,
    pub last: Option<LogId>,
    pub committed: Option<LogId>,
    pub purged: Option<LogId>,
    pub user_data: Option<String>,
}

impl MState {
    pub fn to_json(&self) -> Value {
        json!({
            "vote": self.vote, "last": self.last, "committed": self.committed,
            "purged": self.purged, "user_data": self.user_data.as_ref().map(|s| short(s)),
        })
    }
}

pub fn short(s: &str) -> String {
    if s.len() <= 24 { s.to_string() } else { format!("{}..({}B)", s.chars().take(16).collect::<String>(), s.len()) }
}

/// One journalled single-record write.
#[derive(Clone, Debug, PartialEq, Eq)]
pub enum Rec {
    Vote((u64, u64)),
    Append(LogId, String),
    Commit(LogId),
    TruncateAfter(Option<LogId>),
    Purge(LogId),
    State(MState),
}

impl Rec {
    pub fn kind(&self) -> &'static str {
        match self {
            Rec::Vote(_) => "vote",
            Rec::Append(..) => "append",
            Rec::Commit(_) => "commit",
            Rec::TruncateAfter(_) => "truncate",
            Rec::Purge(_) => "purge",
            Rec::State(_) => "state",
        }
    }
    pub fn to_json(&self) -> Value {
        match self {
            Rec::Vote(v) => json!({"vote": v}),
            Rec::Append(id, p) => json!({"append": id, "payload": short(p)}),
            Rec::Commit(id) => json!({"commit": id}),
            Rec::TruncateAfter(id) => json!({"truncate_after": id}),
            Rec::Purge(id) => json!({"purge": id}),
            Rec::State(s) => json!({"state": s.to_json()}),
        }
    }
}

impl Rec {
    /// largest term of any log id mentioned by this record (entries, purge/truncate points, snapshot fields)
    pub fn max_term(&self) -> u64 {
        match self {
            Rec::Vote(_) => 0,
            Rec::Append(id, _) | Rec::Commit(id) | Rec::Purge(id) => id.0,
            Rec::TruncateAfter(id) => id.map(|i| i.0).unwrap_or(0),
            Rec::State(s) => [s.last, s.committed, s.purged].iter().map(|x| x.map(|i| i.0).unwrap_or(0)).max().unwrap_or(0),
        }
    }
}

#[derive(Clone, Debug, PartialEq, Eq)]
pub enum Reject {
    VoteBackwards,
    AppendNotGreater,
    AppendNotConsecutive,
    CommitBackwards,
    TruncateNoSuchIndex,
    IndexOverflow,
}

#[derive(Clone, Debug, Default, PartialEq, Eq)]
pub struct Model {
    pub st: MState,
    pub log: BTreeMap<u64, (LogId, String)>,
}

impl Model {
    pub fn new() -> Self {
        Self::default()
    }

    pub fn next_after_purged(&self) -> u64 {
        match self.st.purged {
            Some(p) => p.1.saturating_add(1),
            None => 0,
        }
    }

    pub fn first_index(&self) -> Option<u64> {
        self.log.keys().next().copied()
    }

    pub fn check_vote(&self, v: (u64, u64)) -> Result<(), Reject> {
        if Some(v) < self.st.vote { Err(Reject::VoteBackwards) } else { Ok(()) }
    }

    pub fn check_append(&self, id: LogId) -> Result<(), Reject> {
        if Some(id) <= self.st.last {
            return Err(Reject::AppendNotGreater);
        }
        if let Some(last) = self.st.last {
            if last.1 == u64::MAX {
                return Err(Reject::IndexOverflow);
            }
            if id.1 != last.1 + 1 {
                return Err(Reject::AppendNotConsecutive);
            }
        }
        Ok(())
    }

    pub fn check_commit(&self, id: LogId) -> Result<(), Reject> {
        if Some(id) < self.st.committed { Err(Reject::CommitBackwards) } else { Ok(()) }
    }

    /// Which log id a `truncate(index)` keeps as the new last, or a rejection.
    pub fn check_truncate(&self, index: u64) -> Result<Option<LogId>, Reject> {
        if index == self.next_after_purged() && !(self.st.purged.is_some() && index == 0) {
            return Ok(self.st.purged);
        }
        if index == 0 {
            return Err(Reject::TruncateNoSuchIndex);
        }
        match self.log.get(&(index - 1)) {
            Some((id, _)) => Ok(Some(*id)),
            None => Err(Reject::TruncateNoSuchIndex),
        }
    }

    /// `truncate(index)` where the entry `index` exists but neither rule of
    /// `check_truncate` applies (first entry of a log that starts at a non-zero
    /// index with nothing purged). The statement leaves it open whether that
    /// is an "index that does not exist"; generators avoid it.
    pub fn truncate_unspecified(&self, index: u64) -> bool {
        self.check_truncate(index).is_err() && self.log.contains_key(&index)
    }

    pub fn purge_is_noop(&self, upto: LogId) -> bool {
        upto.1 < self.next_after_purged()
    }

    /// Apply a single accepted record. Caller has validated it.
    pub fn apply(&mut self, r: &Rec) {
        match r {
            Rec::Vote(v) => self.st.vote = Some(*v),
            Rec::Append(id, p) => {
                self.log.insert(id.1, (*id, p.clone()));
                self.st.last = Some(*id);
            }
            Rec::Commit(id) => self.st.committed = Some(*id),
            Rec::TruncateAfter(after) => {
                let from = match after {
                    Some(a) => a.1.wrapping_add(1),
                    None => 0,
                };
                if after.is_some() && from == 0 {
                    // index u64::MAX kept: nothing above it
                } else {
                    self.log.split_off(&from);
                }
                if self.st.last > *after {
                    self.st.last = *after;
                }
            }
            Rec::Purge(upto) => {
                if upto.1 == u64::MAX {
                    self.log.clear();
                } else {
                    let keep = self.log.split_off(&(upto.1 + 1));
                    self.log = keep;
                }
                if self.st.purged < Some(*upto) {
                    self.st.purged = Some(*upto);
                }
                if Some(*upto) > self.st.last {
                    self.st.last = Some(*upto);
                }
            }
            Rec::State(s) => self.st = s.clone(),
        }
    }

    pub fn entries(&self) -> Vec<(LogId, String)> {
        self.log.values().cloned().collect()
    }

    pub fn range(&self, from: u64, to: u64) -> Vec<(LogId, String)> {
        if from >= to {
            return vec![];
        }
        self.log.range(from..to).map(|(_, v)| v.clone()).collect()
    }

    /// Hash of state + entries (ids and payloads), for prefix lookup.
    pub fn digest(&self) -> u64 {
        digest_of(&self.st, self.log.values().map(|(id, p)| (*id, p.as_str())))
    }
}

pub fn digest_of<'a>(st: &MState, entries: impl Iterator<Item = (LogId, &'a str)>) -> u64 {
    use crate::util::{fnv, fnv_mix};
    let mut h = fnv(format!("{:?}", st).as_bytes());
    for (id, p) in entries {
        h = fnv_mix(h, id.0);
        h = fnv_mix(h, id.1);
        h = fnv_mix(h, fnv(p.as_bytes()));
    }
    h
}
