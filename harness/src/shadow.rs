//! Shadow file system: a pure function of the event trace.
//!
//! Per file: `written` (what a process crash would leave) and `durable` (what
//! survives power loss: the copy of `written` taken at the last *successful*
//! fdatasync/fsync of that file). Creating and unlinking directory entries is
//! taken as durable when the call returns (the crash model stated in C03).

use std::collections::BTreeMap;

use crate::refcodec;
use crate::trace::{Ek, PathId, Trace};

#[derive(Clone, Debug, Default, PartialEq, Eq)]
pub struct SFile {
    pub written: Vec<u8>,
    pub durable: Vec<u8>,
}

#[derive(Clone, Debug, Default)]
pub struct Shadow {
    /// chunk id (global offset from the file name) -> file
    pub files: BTreeMap<u64, SFile>,
    /// path id -> chunk id
    pub ids: BTreeMap<PathId, u64>,
}

pub fn chunk_id_of_path(p: &str) -> Option<u64> {
    let name = p.rsplit('/').next()?;
    refcodec::parse_chunk_file_name(name)
}

impl Shadow {
    pub fn new() -> Self {
        Self::default()
    }

    /// start from an on-disk image that is entirely durable
    pub fn from_image(img: &[(u64, Vec<u8>)]) -> Self {
        let mut s = Shadow::default();
        for (id, b) in img {
            s.files.insert(*id, SFile { written: b.clone(), durable: b.clone() });
        }
        s
    }

    pub fn cid(&mut self, t: &Trace, p: PathId) -> Option<u64> {
        if let Some(c) = self.ids.get(&p) {
            return Some(*c);
        }
        let c = chunk_id_of_path(&t.paths[p as usize])?;
        self.ids.insert(p, c);
        Some(c)
    }

    pub fn apply(&mut self, t: &Trace, e: &Ek) {
        match e {
            Ek::Create { path } => {
                if let Some(c) = self.cid(t, *path) {
                    self.files.insert(c, SFile::default());
                }
            }
            Ek::Write { path, off, data, res } => {
                if *res > 0 {
                    if let Some(c) = self.cid(t, *path) {
                        let f = self.files.entry(c).or_default();
                        let n = *res as usize;
                        let off = *off as usize;
                        if f.written.len() < off + n {
                            f.written.resize(off + n, 0);
                        }
                        f.written[off..off + n].copy_from_slice(&data[..n]);
                    }
                }
            }
            Ek::Sync { path, res } => {
                if *res == 0 {
                    if let Some(c) = self.cid(t, *path) {
                        if let Some(f) = self.files.get_mut(&c) {
                            f.durable = f.written.clone();
                        }
                    }
                }
            }
            Ek::Trunc { path, len, res } => {
                if *res == 0 {
                    if let Some(c) = self.cid(t, *path) {
                        if let Some(f) = self.files.get_mut(&c) {
                            f.written.resize(*len as usize, 0);
                        }
                    }
                }
            }
            Ek::Unlink { path, res } => {
                if *res == 0 {
                    if let Some(c) = self.cid(t, *path) {
                        self.files.remove(&c);
                    }
                }
            }
            _ => {}
        }
    }

    pub fn written_image(&self) -> Vec<(u64, Vec<u8>)> {
        self.files.iter().map(|(k, f)| (*k, f.written.clone())).collect()
    }

    pub fn durable_image(&self) -> Vec<(u64, Vec<u8>)> {
        self.files.iter().map(|(k, f)| (*k, f.durable.clone())).collect()
    }
}

pub fn image_hash(img: &[(u64, Vec<u8>)]) -> u64 {
    let mut h = 0x1234_5678u64;
    for (id, b) in img {
        h = crate::util::fnv_mix(h, *id);
        h = crate::util::fnv_mix(h, b.len() as u64);
        h = crate::util::fnv_mix(h, crate::util::fnv(b));
    }
    h
}
