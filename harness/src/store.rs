//! Driver around the real `RaftLog` with the harness types.

use std::panic::{AssertUnwindSafe, catch_unwind};
use std::sync::Arc;
use std::sync::Mutex;

use raft_log::api::raft_log_writer::RaftLogWriter;
use raft_log::codeq::{Decode, Encode};
use raft_log::{Callback, Config, Dump, DumpApi, RaftLog, Types, WALRecord};
use serde_json::{Value, json};

use crate::model::{LogId, MState, Rec, short};
use crate::trace::{self, Ek};

#[derive(Debug, Clone, PartialEq, Eq, Default)]
pub struct V;

impl Types for V {
    type LogId = (u64, u64);
    type LogPayload = String;
    type Vote = (u64, u64);
    type Callback = AckCb;
    type UserData = String;

    fn log_index(log_id: &Self::LogId) -> u64 {
        log_id.1
    }
    fn payload_size(payload: &Self::LogPayload) -> u64 {
        payload.len() as u64
    }
}

/// Flush callback: records an `Ack` event in the trace at the moment it fires.
pub struct AckCb {
    pub flush: u64,
    sent: bool,
}

impl AckCb {
    pub fn new(flush: u64) -> Self {
        AckCb { flush, sent: false }
    }
}

impl Callback for AckCb {
    fn send(mut self, res: Result<(), std::io::Error>) {
        self.sent = true;
        crate::props::kill9::on_ack_in_child(self.flush, res.is_ok());
        trace::on_ack(self.flush, &res);
    }
}

impl Drop for AckCb {
    fn drop(&mut self) {
        if !self.sent {
            trace::on_ack_dropped(self.flush);
        }
    }
}

#[derive(Clone, Debug, PartialEq, Eq, Default)]
pub struct CfgSpec {
    pub max_items: Option<usize>,
    pub capacity: Option<usize>,
    pub read_buf: Option<usize>,
    pub max_records: Option<usize>,
    pub max_size: Option<usize>,
    pub truncate: Option<bool>,
}

impl CfgSpec {
    pub fn to_config(&self, dir: &str) -> Arc<Config> {
        Arc::new(Config {
            dir: dir.to_string(),
            log_cache_max_items: self.max_items,
            log_cache_capacity: self.capacity,
            read_buffer_size: self.read_buf,
            chunk_max_records: self.max_records,
            chunk_max_size: self.max_size,
            truncate_incomplete_record: self.truncate,
        })
    }
    pub fn to_json(&self) -> Value {
        json!({"max_items": self.max_items, "capacity": self.capacity, "read_buf": self.read_buf,
               "max_records": self.max_records, "max_size": self.max_size, "truncate": self.truncate})
    }
    pub fn from_json(v: &Value) -> Self {
        let g = |k: &str| v.get(k).and_then(|x| x.as_u64()).map(|x| x as usize);
        CfgSpec {
            max_items: g("max_items"),
            capacity: g("capacity"),
            read_buf: g("read_buf"),
            max_records: g("max_records"),
            max_size: g("max_size"),
            truncate: v.get("truncate").and_then(|x| x.as_bool()),
        }
    }
    pub fn eff_max_records(&self) -> usize {
        self.max_records.unwrap_or(1024 * 1024)
    }
    pub fn eff_max_size(&self) -> usize {
        self.max_size.unwrap_or(1024 * 1024 * 1024)
    }
}

#[derive(Clone, Debug, PartialEq)]
pub enum Op {
    Vote((u64, u64)),
    Append(Vec<(LogId, String)>),
    Truncate(u64),
    Purge(LogId),
    Commit(LogId),
    UserData(Option<String>),
    /// `update_state` with a full state
    UpdateState(MState),
    Flush { cb: bool },
    /// flush with callback, wait for the ack and for the worker to become idle
    Sync,
    /// sync, drop, open with a new configuration
    Reopen(CfgSpec),
    Read(u64, u64),
    /// read-only public calls: 0 stat, 1 on_disk_size, 2 dump text, 3 dump_data iteration, 4 access_stat/config
    Misc(u8),
}

impl Op {
    pub fn kind(&self) -> &'static str {
        match self {
            Op::Vote(_) => "vote",
            Op::Append(_) => "append",
            Op::Truncate(_) => "truncate",
            Op::Purge(_) => "purge",
            Op::Commit(_) => "commit",
            Op::UserData(_) => "user_data",
            Op::UpdateState(_) => "update_state",
            Op::Flush { .. } => "flush",
            Op::Sync => "sync",
            Op::Reopen(_) => "reopen",
            Op::Read(..) => "read",
            Op::Misc(_) => "misc",
        }
    }
    pub fn is_write(&self) -> bool {
        matches!(self, Op::Vote(_) | Op::Append(_) | Op::Truncate(_) | Op::Purge(_) | Op::Commit(_) | Op::UserData(_) | Op::UpdateState(_))
    }
    pub fn to_json(&self) -> Value {
        match self {
            Op::Vote(v) => json!({"vote": v}),
            Op::Append(es) => json!({"append": es.iter().map(|(id, p)| json!([id.0, id.1, p])).collect::<Vec<_>>()}),
            Op::Truncate(i) => json!({"truncate": i}),
            Op::Purge(id) => json!({"purge": id}),
            Op::Commit(id) => json!({"commit": id}),
            Op::UserData(u) => json!({"user_data": u}),
            Op::UpdateState(s) => json!({"update_state": {"vote": s.vote, "last": s.last, "committed": s.committed, "purged": s.purged, "user_data": s.user_data}}),
            Op::Flush { cb } => json!({"flush": cb}),
            Op::Sync => json!("sync"),
            Op::Reopen(c) => json!({"reopen": c.to_json()}),
            Op::Read(a, b) => json!({"read": [a, b]}),
            Op::Misc(k) => json!({"misc": k}),
        }
    }
    /// compact form for evidence samples
    pub fn brief(&self) -> String {
        match self {
            Op::Vote(v) => format!("vote{:?}", v),
            Op::Append(es) => format!("append[{}]", es.iter().map(|(id, p)| format!("({},{}):{}B", id.0, id.1, p.len())).collect::<Vec<_>>().join(",")),
            Op::Truncate(i) => format!("truncate({})", i),
            Op::Purge(id) => format!("purge{:?}", id),
            Op::Commit(id) => format!("commit{:?}", id),
            Op::UserData(u) => format!("user_data({:?})", u.as_ref().map(|s| short(s))),
            Op::UpdateState(_) => "update_state".into(),
            Op::Flush { cb } => format!("flush(cb={})", cb),
            Op::Sync => "sync".into(),
            Op::Reopen(c) => format!("reopen(rec={:?},size={:?})", c.max_records, c.max_size),
            Op::Read(a, b) => format!("read({},{})", a, b),
            Op::Misc(k) => format!("misc{}", k),
        }
    }
    pub fn from_json(v: &Value) -> Option<Op> {
        let id = |x: &Value| -> Option<(u64, u64)> { Some((x.get(0)?.as_u64()?, x.get(1)?.as_u64()?)) };
        let oid = |x: Option<&Value>| -> Option<(u64, u64)> { x.and_then(id) };
        if v.as_str() == Some("sync") {
            return Some(Op::Sync);
        }
        let o = v.as_object()?;
        let (k, x) = o.iter().next()?;
        Some(match k.as_str() {
            "vote" => Op::Vote(id(x)?),
            "append" => Op::Append(
                x.as_array()?
                    .iter()
                    .map(|e| Some(((e.get(0)?.as_u64()?, e.get(1)?.as_u64()?), e.get(2)?.as_str()?.to_string())))
                    .collect::<Option<Vec<_>>>()?,
            ),
            "truncate" => Op::Truncate(x.as_u64()?),
            "purge" => Op::Purge(id(x)?),
            "commit" => Op::Commit(id(x)?),
            "user_data" => Op::UserData(x.as_str().map(|s| s.to_string())),
            "update_state" => Op::UpdateState(MState {
                vote: oid(x.get("vote")),
                last: oid(x.get("last")),
                committed: oid(x.get("committed")),
                purged: oid(x.get("purged")),
                user_data: x.get("user_data").and_then(|u| u.as_str()).map(|s| s.to_string()),
            }),
            "flush" => Op::Flush { cb: x.as_bool()? },
            "reopen" => Op::Reopen(CfgSpec::from_json(x)),
            "read" => Op::Read(x.get(0)?.as_u64()?, x.get(1)?.as_u64()?),
            "misc" => Op::Misc(x.as_u64()? as u8),
            _ => return None,
        })
    }
}

#[derive(Clone, Debug, PartialEq)]
pub enum Outcome {
    /// returned Ok; for writes the returned segment (offset, size)
    Ok(Option<(u64, u64)>),
    Err(String),
    Panic(String),
}

impl Outcome {
    pub fn is_ok(&self) -> bool {
        matches!(self, Outcome::Ok(_))
    }
    pub fn is_err(&self) -> bool {
        matches!(self, Outcome::Err(_))
    }
    pub fn is_panic(&self) -> bool {
        matches!(self, Outcome::Panic(_))
    }
    pub fn brief(&self) -> String {
        match self {
            Outcome::Ok(Some((o, s))) => format!("Ok[{},+{})", o, s),
            Outcome::Ok(None) => "Ok".into(),
            Outcome::Err(e) => format!("Err({})", short(e)),
            Outcome::Panic(e) => format!("PANIC({})", e),
        }
    }
}

// ---- panic capture -------------------------------------------------------------------

static LAST_PANIC: Mutex<Option<String>> = Mutex::new(None);

pub fn install_panic_hook() {
    std::panic::set_hook(Box::new(|info| {
        let loc = info.location().map(|l| format!("{}:{}", l.file(), l.line())).unwrap_or_default();
        let msg = if let Some(s) = info.payload().downcast_ref::<&str>() {
            s.to_string()
        } else if let Some(s) = info.payload().downcast_ref::<String>() {
            s.clone()
        } else {
            "?".to_string()
        };
        let mut g = match LAST_PANIC.lock() {
            Ok(g) => g,
            Err(p) => p.into_inner(),
        };
        let first_line = msg.lines().next().unwrap_or("").to_string();
        *g = Some(format!("{} @ {}", short_msg(&first_line), loc));
        if std::env::var("RLMON_SHOW_PANICS").is_ok() {
            eprintln!("[panic] {} @ {}", msg, loc);
        }
    }));
}

fn short_msg(s: &str) -> String {
    if s.chars().count() > 160 { format!("{}...", s.chars().take(160).collect::<String>()) } else { s.to_string() }
}

pub fn take_panic() -> String {
    let mut g = match LAST_PANIC.lock() {
        Ok(g) => g,
        Err(p) => p.into_inner(),
    };
    g.take().unwrap_or_else(|| "panic (no message)".to_string())
}

pub fn guarded<R>(f: impl FnOnce() -> R) -> Result<R, String> {
    match catch_unwind(AssertUnwindSafe(f)) {
        Ok(r) => Ok(r),
        Err(_) => Err(take_panic()),
    }
}

// ---- conversions ---------------------------------------------------------------------

/// The crate's `RaftLogState` type lives in a crate-private module and cannot be
/// named from here; values are handled through inference.
#[macro_export]
macro_rules! mstate_of {
    ($s:expr) => {{
        let s = $s;
        $crate::model::MState { vote: s.vote().cloned(), last: s.last().cloned(), committed: s.committed().cloned(), purged: s.purged().cloned(), user_data: s.user_data.clone() }
    }};
}

pub fn rec_to_wal(r: &Rec) -> WALRecord<V> {
    match r {
        Rec::Vote(v) => WALRecord::SaveVote(*v),
        Rec::Append(id, p) => WALRecord::Append(*id, p.clone()),
        Rec::Commit(id) => WALRecord::Commit(*id),
        Rec::TruncateAfter(id) => WALRecord::TruncateAfter(*id),
        Rec::Purge(id) => WALRecord::PurgeUpto(*id),
        Rec::State(s) => {
            let mut b = Vec::new();
            crate::refcodec::encode_state_body(&mut b, s);
            WALRecord::State(Decode::decode(&b[..]).expect("state body decodes"))
        }
    }
}

pub fn wal_to_rec(r: &WALRecord<V>) -> Rec {
    match r {
        WALRecord::SaveVote(v) => Rec::Vote(*v),
        WALRecord::Append(id, p) => Rec::Append(*id, p.clone()),
        WALRecord::Commit(id) => Rec::Commit(*id),
        WALRecord::TruncateAfter(id) => Rec::TruncateAfter(*id),
        WALRecord::PurgeUpto(id) => Rec::Purge(*id),
        WALRecord::State(s) => Rec::State(mstate_of!(s)),
    }
}

/// Bytes of a state body, from which the crate's (unnameable) state value is decoded.
pub fn state_body(s: &MState) -> Vec<u8> {
    let mut b = Vec::new();
    crate::refcodec::encode_state_body(&mut b, s);
    b
}

pub fn crate_encode(r: &WALRecord<V>) -> (Vec<u8>, usize) {
    let mut b = Vec::new();
    let n = r.encode(&mut b).expect("encode to vec");
    (b, n)
}

// ---- the store -----------------------------------------------------------------------

pub struct Store {
    pub rl: Option<RaftLog<V>>,
    pub dir: String,
    pub cfg: CfgSpec,
    pub inst: u32,
}

impl Store {
    pub fn open(dir: &str, cfg: &CfgSpec, inst: u32) -> Result<Store, Outcome> {
        trace::note(Ek::OpenBegin { inst });
        let c = cfg.to_config(dir);
        let r = guarded(|| RaftLog::<V>::open(c));
        let out = match r {
            Ok(Ok(rl)) => Ok(Store { rl: Some(rl), dir: dir.to_string(), cfg: cfg.clone(), inst}),
            Ok(Err(e)) => Err(Outcome::Err(e.to_string())),
            Err(p) => Err(Outcome::Panic(p)),
        };
        trace::note(Ek::OpenEnd { inst, ok: out.is_ok() });
        out
    }

    pub fn rl(&self) -> &RaftLog<V> {
        self.rl.as_ref().expect("store open")
    }
    pub fn rl_mut(&mut self) -> &mut RaftLog<V> {
        self.rl.as_mut().expect("store open")
    }

    pub fn state(&self) -> MState {
        mstate_of!(self.rl().log_state())
    }

    pub fn read(&self, from: u64, to: u64) -> Outcome2<Vec<(LogId, String)>> {
        let rl = self.rl();
        match guarded(|| rl.read(from, to).collect::<Result<Vec<_>, _>>()) {
            Ok(Ok(v)) => Outcome2::Ok(v),
            Ok(Err(e)) => Outcome2::Err(e.to_string()),
            Err(p) => Outcome2::Panic(p),
        }
    }

    pub fn read_all(&self) -> Outcome2<Vec<(LogId, String)>> {
        self.read(0, u64::MAX)
    }

    pub fn iter_all(&self) -> Outcome2<Vec<(LogId, String)>> {
        let rl = self.rl();
        match guarded(|| {
            let mut d = rl.dump_data();
            d.iter().collect::<Result<Vec<_>, _>>()
        }) {
            Ok(Ok(v)) => Outcome2::Ok(v),
            Ok(Err(e)) => Outcome2::Err(e.to_string()),
            Err(p) => Outcome2::Panic(p),
        }
    }

    /// Execute a write op on the real store.
    pub fn write(&mut self, op: &Op) -> Outcome {
        let rl = self.rl.as_mut().expect("store open");
        let r = guarded(|| match op {
            Op::Vote(v) => rl.save_vote(*v),
            Op::Append(es) => rl.append(es.clone()),
            Op::Truncate(i) => rl.truncate(*i),
            Op::Purge(id) => rl.purge(*id),
            Op::Commit(id) => rl.commit(*id),
            Op::UserData(u) => rl.save_user_data(u.clone()),
            Op::UpdateState(s) => rl.update_state(Decode::decode(&state_body(s)[..]).expect("state body decodes")),
            _ => panic!("not a write op"),
        });
        match r {
            Ok(Ok(seg)) => Outcome::Ok(Some((seg.offset, seg.size))),
            Ok(Err(e)) => Outcome::Err(e.to_string()),
            Err(p) => Outcome::Panic(p),
        }
    }

    /// Issue a flush. Returns the flush id (for the ack table) and the call's result.
    pub fn flush(&mut self, cb: bool) -> (u64, Outcome) {
        let id = trace::next_flush_id();
        let gend = self.rl().stat().open_chunk.global_end;
        trace::note(Ek::FlushCall { flush: id, gend });
        let rl = self.rl.as_mut().unwrap();
        let r = guarded(|| rl.flush(if cb { Some(AckCb::new(id)) } else { None }));
        let out = match r {
            Ok(Ok(())) => Outcome::Ok(None),
            Ok(Err(e)) => Outcome::Err(e.to_string()),
            Err(p) => Outcome::Panic(p),
        };
        (id, out)
    }

    pub fn seq(&self) -> (u64, u64) {
        self.rl().verif_worker_seq()
    }

    pub fn idle(&self) -> bool {
        let (s, d) = self.seq();
        d >= s
    }

    /// Wait (bounded) until the worker has processed everything sent. No verdict depends on the time.
    pub fn wait_idle(&self, timeout_ms: u64) -> bool {
        let t0 = std::time::Instant::now();
        let mut spins = 0u32;
        let mut last_alive_check = 0u128;
        let mut not_seen_since: Option<u128> = None;
        while !self.idle() {
            let el = t0.elapsed().as_millis();
            if el as u64 > timeout_ms {
                return false;
            }
            // no flush-worker thread left in this process: nothing will ever process the queue. (A thread that was just
            // spawned carries its name only once it runs, which can take a while on a loaded machine: the conclusion
            // needs 3 s of consecutive negative checks.)
            if el >= last_alive_check + 50 {
                last_alive_check = el;
                if trace::any_worker_thread_alive() {
                    not_seen_since = None;
                } else {
                    let since = *not_seen_since.get_or_insert(el);
                    if el - since >= 3000 {
                        return self.idle();
                    }
                }
            }
            spins += 1;
            if spins < 200 {
                std::thread::yield_now();
            } else {
                std::thread::sleep(std::time::Duration::from_micros(50));
            }
        }
        true
    }

    /// flush with callback, wait for ack + idle. Ok(()) only if acked Ok.
    pub fn sync(&mut self) -> Result<(), String> {
        let (id, out) = self.flush(true);
        if !out.is_ok() {
            return Err(format!("flush call: {}", out.brief()));
        }
        match trace_or_local_wait(id) {
            Some(trace::AckState::Ok) => {}
            Some(s) => return Err(format!("ack: {:?}", s)),
            // (running out of time is not a statement about the store: callers treat "TIMEOUT" as not judged)
            None => return Err("TIMEOUT: no acknowledgement within the wait limit".into()),
        }
        if !self.wait_idle(60_000) {
            return Err("TIMEOUT: worker not idle within the wait limit".into());
        }
        Ok(())
    }

    pub fn close(&mut self) {
        if let Some(rl) = self.rl.take() {
            trace::note(Ek::DropBegin { inst: self.inst });
            drop(rl);
            trace::note(Ek::DropEnd { inst: self.inst });
        }
    }

    /// read-only public calls (C16)
    pub fn misc(&self, k: u8) -> Outcome {
        let rl = self.rl();
        let r = guarded(|| -> Result<(), std::io::Error> {
            match k {
                0 => {
                    let s = rl.stat();
                    let _ = format!("{} {:#}", s, s);
                }
                1 => {
                    let _ = rl.on_disk_size();
                }
                2 => {
                    rl.dump().write_to_string()?;
                }
                5 => {
                    // a dump abandoned after its second record
                    let mut n = 0;
                    let _ = rl.dump().write_with(|_c, _i, _res| {
                        n += 1;
                        if n >= 2 { Err(std::io::Error::other("stop")) } else { Ok(()) }
                    });
                }
                3 => {
                    let mut d = rl.dump_data();
                    let _ = d.state();
                    for e in d.iter() {
                        e?;
                    }
                }
                _ => {
                    let _ = rl.access_stat();
                    let _ = rl.config();
                    let _ = rl.log_state();
                }
            }
            Ok(())
        });
        match r {
            Ok(Ok(())) => Outcome::Ok(None),
            Ok(Err(e)) => Outcome::Err(e.to_string()),
            Err(p) => Outcome::Panic(p),
        }
    }

    /// End of a scenario: stop gating (a parked worker would block a joining Drop), then close.
    pub fn close_released(&mut self) {
        trace::gate_disable();
        self.close();
    }

    pub fn dump_live(&self) -> Result<String, String> {
        self.rl().dump().write_to_string().map_err(|e| e.to_string())
    }
}

impl Drop for Store {
    fn drop(&mut self) {
        self.close();
    }
}

#[derive(Clone, Debug, PartialEq)]
pub enum Outcome2<T> {
    Ok(T),
    Err(String),
    Panic(String),
}

/// Acks are recorded in the trace when tracing is on, else in a local table.
pub fn trace_or_local_wait(id: u64) -> Option<trace::AckState> {
    trace::wait_ack(id, 60_000)
}

pub fn dump_dir(dir: &str, cfg: &CfgSpec) -> Result<String, String> {
    let c = cfg.to_config(dir);
    let d = Dump::<V>::new(c).map_err(|e| e.to_string())?;
    d.write_to_string().map_err(|e| e.to_string())
}

/// List chunk files (offset, path) of a directory, sorted, using the reference name parser.
pub fn list_chunks(dir: &str) -> Vec<(u64, String)> {
    let mut v = vec![];
    if let Ok(rd) = std::fs::read_dir(dir) {
        for e in rd.flatten() {
            let n = e.file_name().to_string_lossy().to_string();
            if let Some(off) = crate::refcodec::parse_chunk_file_name(&n) {
                v.push((off, format!("{}/{}", dir, n)));
            }
        }
    }
    v.sort();
    v
}

/// Read a whole directory image: name -> bytes (chunk files only).
pub fn read_image(dir: &str) -> Vec<(u64, Vec<u8>)> {
    list_chunks(dir).into_iter().map(|(o, p)| (o, std::fs::read(&p).unwrap_or_default())).collect()
}

pub fn write_image(dir: &str, img: &[(u64, Vec<u8>)]) {
    std::fs::create_dir_all(dir).expect("mkdir image");
    for (off, bytes) in img {
        std::fs::write(format!("{}/{}", dir, crate::refcodec::chunk_file_name(*off)), bytes).expect("write image file");
    }
}
