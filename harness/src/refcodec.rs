//! Reference codec for the on-disk record format with the harness types
//! (LogId=(u64,u64), Vote=(u64,u64), payload/user-data = String).
//!
//! Written from the format description, not from the crate's code:
//!   record  = u32 BE type tag | body | u64 BE checksum (CRC-32/IEEE of tag+body, zero-extended)
//!   vote(0)     = u64 u64
//!   append(1)   = u64 u64 | u32 len | bytes
//!   commit(2)   = u64 u64
//!   truncate(3) = option(u64 u64)          option = 0x00 | 0x01 value
//!   purge(4)    = u64 u64
//!   state(5)    = u8 version(1) | option vote | option last | option committed | option purged | option string

use crate::model::{LogId, MState, Rec};

static CRC_TABLE: std::sync::OnceLock<[u32; 256]> = std::sync::OnceLock::new();

fn table() -> &'static [u32; 256] {
    CRC_TABLE.get_or_init(|| {
        let mut t = [0u32; 256];
        for i in 0..256u32 {
            let mut c = i;
            for _ in 0..8 {
                c = if c & 1 != 0 { 0xEDB8_8320 ^ (c >> 1) } else { c >> 1 };
            }
            t[i as usize] = c;
        }
        t
    })
}

pub fn crc32(bytes: &[u8]) -> u32 {
    let t = table();
    let mut c = 0xFFFF_FFFFu32;
    for b in bytes {
        c = t[((c ^ *b as u32) & 0xff) as usize] ^ (c >> 8);
    }
    c ^ 0xFFFF_FFFF
}

/// Four bytes which, appended to `prefix`, make the CRC-32 of the whole equal `target` (the table-driven CRC run
/// backwards). Used to build records whose checksum is a chosen value, e.g. 0.
pub fn crc32_forge_suffix(prefix: &[u8], target: u32) -> [u8; 4] {
    let t = table();
    // state after the prefix, and the state wanted after the four bytes
    let mut s = 0xFFFF_FFFFu32;
    for b in prefix {
        s = t[((s ^ *b as u32) & 0xff) as usize] ^ (s >> 8);
    }
    let mut want = target ^ 0xFFFF_FFFF;
    // table index used at each of the four steps, last step first (the top byte of a table entry identifies it)
    let mut idx = [0usize; 4];
    for i in (0..4).rev() {
        let k = (0..256).find(|k| t[*k] >> 24 == want >> 24).unwrap_or(0);
        idx[i] = k;
        want = (want ^ t[k]) << 8;
    }
    let mut out = [0u8; 4];
    for i in 0..4 {
        out[i] = (s as u8) ^ idx[i] as u8;
        s = t[idx[i]] ^ (s >> 8);
    }
    out
}

fn put_u64(o: &mut Vec<u8>, v: u64) {
    o.extend_from_slice(&v.to_be_bytes());
}
fn put_id(o: &mut Vec<u8>, id: LogId) {
    put_u64(o, id.0);
    put_u64(o, id.1);
}
fn put_opt_id(o: &mut Vec<u8>, id: Option<LogId>) {
    match id {
        None => o.push(0),
        Some(id) => {
            o.push(1);
            put_id(o, id);
        }
    }
}
fn put_str(o: &mut Vec<u8>, s: &str) {
    o.extend_from_slice(&(s.len() as u32).to_be_bytes());
    o.extend_from_slice(s.as_bytes());
}

pub fn encode_state_body(o: &mut Vec<u8>, s: &MState) {
    o.push(1);
    put_opt_id(o, s.vote);
    put_opt_id(o, s.last);
    put_opt_id(o, s.committed);
    put_opt_id(o, s.purged);
    match &s.user_data {
        None => o.push(0),
        Some(u) => {
            o.push(1);
            put_str(o, u);
        }
    }
}

pub fn encode(r: &Rec) -> Vec<u8> {
    let mut o = Vec::new();
    let tag: u32 = match r {
        Rec::Vote(_) => 0,
        Rec::Append(..) => 1,
        Rec::Commit(_) => 2,
        Rec::TruncateAfter(_) => 3,
        Rec::Purge(_) => 4,
        Rec::State(_) => 5,
    };
    o.extend_from_slice(&tag.to_be_bytes());
    match r {
        Rec::Vote(v) => put_id(&mut o, *v),
        Rec::Append(id, p) => {
            put_id(&mut o, *id);
            put_str(&mut o, p);
        }
        Rec::Commit(id) => put_id(&mut o, *id),
        Rec::TruncateAfter(id) => put_opt_id(&mut o, *id),
        Rec::Purge(id) => put_id(&mut o, *id),
        Rec::State(s) => encode_state_body(&mut o, s),
    }
    let c = crc32(&o) as u64;
    put_u64(&mut o, c);
    o
}

#[derive(Debug, Clone, PartialEq, Eq)]
pub enum DecErr {
    /// input ended before the record was complete
    Eof,
    /// bytes cannot be a record (bad tag, bad option byte, bad utf-8, checksum)
    Invalid(String),
}

/// Which field of a record a byte offset belongs to.
#[derive(Debug, Clone, Copy, PartialEq, Eq, Hash, PartialOrd, Ord)]
pub enum Field {
    TypeTag,
    Version,
    OptionTag,
    Integer,
    LenPrefix,
    Bytes,
    Checksum,
}

impl Field {
    pub fn name(&self) -> &'static str {
        match self {
            Field::TypeTag => "type_tag",
            Field::Version => "version",
            Field::OptionTag => "option_tag",
            Field::Integer => "integer",
            Field::LenPrefix => "len_prefix",
            Field::Bytes => "bytes",
            Field::Checksum => "checksum",
        }
    }
    /// fields whose alteration can change the declared extent of the record
    pub fn shapes_extent(&self) -> bool {
        matches!(self, Field::TypeTag | Field::OptionTag | Field::LenPrefix | Field::Version)
    }
}

struct Cur<'a> {
    b: &'a [u8],
    p: usize,
    fields: Vec<(usize, usize, Field)>,
}

impl<'a> Cur<'a> {
    fn take(&mut self, n: usize, f: Field) -> Result<&'a [u8], DecErr> {
        if self.b.len() - self.p < n {
            return Err(DecErr::Eof);
        }
        let s = &self.b[self.p..self.p + n];
        self.fields.push((self.p, self.p + n, f));
        self.p += n;
        Ok(s)
    }
    fn u8(&mut self, f: Field) -> Result<u8, DecErr> {
        Ok(self.take(1, f)?[0])
    }
    fn u32(&mut self, f: Field) -> Result<u32, DecErr> {
        Ok(u32::from_be_bytes(self.take(4, f)?.try_into().unwrap()))
    }
    fn u64(&mut self, f: Field) -> Result<u64, DecErr> {
        Ok(u64::from_be_bytes(self.take(8, f)?.try_into().unwrap()))
    }
    fn id(&mut self) -> Result<LogId, DecErr> {
        Ok((self.u64(Field::Integer)?, self.u64(Field::Integer)?))
    }
    fn opt_tag(&mut self) -> Result<bool, DecErr> {
        match self.u8(Field::OptionTag)? {
            0 => Ok(false),
            1 => Ok(true),
            t => Err(DecErr::Invalid(format!("option tag {}", t))),
        }
    }
    fn opt_id(&mut self) -> Result<Option<LogId>, DecErr> {
        if self.opt_tag()? { Ok(Some(self.id()?)) } else { Ok(None) }
    }
    fn string(&mut self) -> Result<String, DecErr> {
        let n = self.u32(Field::LenPrefix)? as usize;
        let s = self.take(n, Field::Bytes)?;
        String::from_utf8(s.to_vec()).map_err(|_| DecErr::Invalid("utf8".into()))
    }
}

pub struct Decoded {
    pub rec: Rec,
    pub len: usize,
    /// (start, end, field) for every field, offsets relative to record start
    pub fields: Vec<(usize, usize, Field)>,
}

pub fn decode_full(b: &[u8]) -> Result<Decoded, DecErr> {
    let mut c = Cur { b, p: 0, fields: vec![] };
    let tag = c.u32(Field::TypeTag)?;
    let rec = match tag {
        0 => Rec::Vote(c.id()?),
        1 => {
            let id = c.id()?;
            Rec::Append(id, c.string()?)
        }
        2 => Rec::Commit(c.id()?),
        3 => Rec::TruncateAfter(c.opt_id()?),
        4 => Rec::Purge(c.id()?),
        5 => {
            let ver = c.u8(Field::Version)?;
            if ver != 1 {
                return Err(DecErr::Invalid(format!("state version {}", ver)));
            }
            let vote = c.opt_id()?;
            let last = c.opt_id()?;
            let committed = c.opt_id()?;
            let purged = c.opt_id()?;
            let user_data = if c.opt_tag()? { Some(c.string()?) } else { None };
            Rec::State(MState { vote, last, committed, purged, user_data })
        }
        t => return Err(DecErr::Invalid(format!("type tag {}", t))),
    };
    let body_end = c.p;
    let sum = c.u64(Field::Checksum)?;
    if sum != crc32(&b[..body_end]) as u64 {
        return Err(DecErr::Invalid("checksum".into()));
    }
    Ok(Decoded { rec, len: c.p, fields: c.fields })
}

/// Largest string length a decoder would be asked to allocate while decoding `b` (0 if none is reached).
pub fn declared_alloc(b: &[u8]) -> u64 {
    fn u32at(b: &[u8], p: usize) -> Option<u32> {
        b.get(p..p + 4).map(|x| u32::from_be_bytes(x.try_into().unwrap()))
    }
    let Some(tag) = u32at(b, 0) else { return 0 };
    match tag {
        1 => u32at(b, 4 + 16).map(|n| n as u64).unwrap_or(0),
        5 => {
            // version, four option(ids), option(string)
            let mut p = 5usize;
            for _ in 0..4 {
                match b.get(p) {
                    Some(0) => p += 1,
                    Some(1) => p += 17,
                    _ => return 0,
                }
            }
            match b.get(p) {
                Some(1) => u32at(b, p + 1).map(|n| n as u64).unwrap_or(0),
                _ => 0,
            }
        }
        _ => 0,
    }
}

pub fn decode(b: &[u8]) -> Result<(Rec, usize), DecErr> {
    decode_full(b).map(|d| (d.rec, d.len))
}

#[derive(Debug, Clone, PartialEq, Eq)]
pub enum Tail {
    /// file ends exactly on a record boundary
    Clean,
    /// bytes after the last complete record end before a record is complete
    Incomplete,
    /// bytes after the last complete record are all zero (at least one)
    Zeros,
    /// bytes after the last complete record are not a record
    Damaged(String),
}

pub struct Parsed {
    /// (start, end, record) of every complete record, offsets in the file
    pub recs: Vec<(usize, usize, Rec)>,
    pub good_len: usize,
    pub tail: Tail,
}

/// Parse a chunk file's bytes into its complete records and a tail verdict.
pub fn parse_file(b: &[u8]) -> Parsed {
    let mut recs = vec![];
    let mut p = 0usize;
    let mut tail = Tail::Clean;
    while p < b.len() {
        match decode(&b[p..]) {
            Ok((r, n)) => {
                recs.push((p, p + n, r));
                p += n;
            }
            Err(e) => {
                let rest = &b[p..];
                tail = if rest.iter().all(|x| *x == 0) {
                    Tail::Zeros
                } else {
                    match e {
                        DecErr::Eof => Tail::Incomplete,
                        DecErr::Invalid(s) => Tail::Damaged(s),
                    }
                };
                break;
            }
        }
    }
    Parsed { recs, good_len: p, tail }
}

/// Record boundaries (offsets) of a byte string that is a clean sequence of records.
pub fn boundaries(b: &[u8]) -> Vec<usize> {
    let p = parse_file(b);
    let mut v = vec![0usize];
    for (_, e, _) in &p.recs {
        v.push(*e);
    }
    v
}

pub fn chunk_file_name(offset: u64) -> String {
    // 20 digits, grouped by 3 from the right with '_' => 26 chars
    let d = format!("{:020}", offset);
    let mut out = String::new();
    let bytes = d.as_bytes();
    for (i, c) in bytes.iter().enumerate() {
        out.push(*c as char);
        let remaining = bytes.len() - 1 - i;
        if remaining > 0 && remaining % 3 == 0 {
            out.push('_');
        }
    }
    format!("r-{}.wal", out)
}

pub fn parse_chunk_file_name(name: &str) -> Option<u64> {
    let s = name.strip_prefix("r-")?.strip_suffix(".wal")?;
    if s.len() != 26 {
        return None;
    }
    let digits: String = s.chars().filter(|c| c.is_ascii_digit()).collect();
    digits.parse::<u64>().ok()
}
